// C18: bounded exhaustive pairwise exploration of mp::Equal and std::hash<mp::Expr>.
//
// The generator owns a description (Node pool) of every expression tree of a finite family, builds
// each description twice with mp::ExprFactory (two independent factories), and compares ALL pairs
// of built trees with mp::Equal in both directions and with std::hash<mp::Expr>.  The oracle is a
// structural equality on the *descriptions* (never on the built objects), cross-checked by a second
// independent implementation (canonical interning with -0.0 folded onto 0.0).
//
// Anything that may crash (Equal / hash on the real code) runs in a forked child; progress and
// counters live in a shared mapping so that a crash becomes a violation naming the exact pair.
#include "mp/expr.h"
#include "explore.h"

#include <sys/mman.h>
#include <sys/wait.h>
#include <unistd.h>
#include <algorithm>
#include <cctype>
#include <unordered_map>

namespace ex = mp::expr;

static vx::Report R;
static vx::Shard S;

// ------------------------------------------------------------------------------- kind table
enum Cls { C_NUM, C_REF, C_UN, C_BIN, C_IF, C_PL, C_CALL, C_ITER, C_NOFSYM, C_COUNT, C_BOOL, C_NOT,
           C_BINLOG, C_REL, C_LCOUNT, C_IMPL, C_ITLOG, C_PAIR, C_STR, C_IFSYM, NCLS };
struct KI { int k; const char* name; Cls cls; };
#define KK(k, c) {ex::k, #k, c}
static const KI KTAB[] = {
  KK(NUMBER, C_NUM), KK(VARIABLE, C_REF), KK(COMMON_EXPR, C_REF),
  KK(MINUS, C_UN), KK(ABS, C_UN), KK(FLOOR, C_UN), KK(CEIL, C_UN), KK(SQRT, C_UN), KK(POW2, C_UN),
  KK(EXP, C_UN), KK(LOG, C_UN), KK(LOG10, C_UN), KK(SIN, C_UN), KK(SINH, C_UN), KK(COS, C_UN),
  KK(COSH, C_UN), KK(TAN, C_UN), KK(TANH, C_UN), KK(ASIN, C_UN), KK(ASINH, C_UN), KK(ACOS, C_UN),
  KK(ACOSH, C_UN), KK(ATAN, C_UN), KK(ATANH, C_UN),
  KK(ADD, C_BIN), KK(SUB, C_BIN), KK(LESS, C_BIN), KK(MUL, C_BIN), KK(DIV, C_BIN), KK(TRUNC_DIV, C_BIN),
  KK(MOD, C_BIN), KK(POW, C_BIN), KK(POW_CONST_BASE, C_BIN), KK(POW_CONST_EXP, C_BIN), KK(ATAN2, C_BIN),
  KK(PRECISION, C_BIN), KK(ROUND, C_BIN), KK(TRUNC, C_BIN),
  KK(IF, C_IF), KK(PLTERM, C_PL), KK(CALL, C_CALL),
  KK(MIN, C_ITER), KK(MAX, C_ITER), KK(SUM, C_ITER), KK(NUMBEROF, C_ITER),
  KK(NUMBEROF_SYM, C_NOFSYM), KK(COUNT, C_COUNT),
  KK(BOOL, C_BOOL), KK(NOT, C_NOT), KK(OR, C_BINLOG), KK(AND, C_BINLOG), KK(IFF, C_BINLOG),
  KK(LT, C_REL), KK(LE, C_REL), KK(EQ, C_REL), KK(GE, C_REL), KK(GT, C_REL), KK(NE, C_REL),
  KK(ATLEAST, C_LCOUNT), KK(ATMOST, C_LCOUNT), KK(EXACTLY, C_LCOUNT), KK(NOT_ATLEAST, C_LCOUNT),
  KK(NOT_ATMOST, C_LCOUNT), KK(NOT_EXACTLY, C_LCOUNT),
  KK(IMPLICATION, C_IMPL), KK(EXISTS, C_ITLOG), KK(FORALL, C_ITLOG), KK(ALLDIFF, C_PAIR),
  KK(NOT_ALLDIFF, C_PAIR), KK(STRING, C_STR), KK(IFSYM, C_IFSYM),
};
static const int NKT = sizeof KTAB / sizeof *KTAB;
static const int NKIND = ex::LAST_EXPR + 1;
static const KI* KBY[NKIND];
static inline Cls cls(int k) { return KBY[k]->cls; }
static inline const char* kname(int k) { return KBY[k]->name; }
static std::vector<int> kinds_of(Cls c) {
  std::vector<int> v; for (int i = 0; i < NKT; ++i) if (KTAB[i].cls == c) v.push_back(KTAB[i].k); return v;
}

// ------------------------------------------------------------------------------- descriptions
// Function table: ids 0..4 are Function objects owned by a third factory and shared by both copies
// of every tree; id FLOC is a function that each tree factory declares for itself.
struct FD { const char* name; int nargs; mp::func::Type type; };
static const FD FUNCS[] = { {"f", -1, mp::func::NUMERIC}, {"g", -1, mp::func::NUMERIC},
                            {"f", -1, mp::func::NUMERIC},      // same name, different object
                            {"f", 2, mp::func::NUMERIC},       // same name, different declared arity
                            {"f", -1, mp::func::SYMBOLIC} };   // same name, different type
static const int NSHARED = 5, FLOC = 5, NFUNC = 6;

struct Node {
  int kind = 0;
  double num = 0;            // NUMBER
  int idx = 0;               // VARIABLE / COMMON_EXPR index, BOOL value, CALL function id
  std::string str;           // STRING
  std::vector<double> pl;    // PLTERM: s0 b0 s1 b1 ... sn   (2n+1 numbers)
  std::vector<int> kids;     // child node ids
};
static std::vector<Node> NODES;
static std::unordered_map<std::string, int> INTERN;

static uint64_t dbits(double d) { uint64_t u; std::memcpy(&u, &d, 8); return u; }
template <class T> static void put(std::string& k, T v) { k.append((const char*)&v, sizeof v); }
// exact identity of a description: bit patterns, so 0.0 and -0.0 are different descriptions
static std::string keyof(const Node& n) {
  std::string k; put(k, n.kind); put(k, dbits(n.num)); put(k, n.idx);
  put(k, (int)n.str.size()); k += n.str;
  put(k, (int)n.pl.size()); for (double d : n.pl) put(k, dbits(d));
  put(k, (int)n.kids.size()); for (int c : n.kids) put(k, c);
  return k;
}
static int mk(const Node& n) {
  std::string k = keyof(n);
  auto it = INTERN.find(k);
  if (it != INTERN.end()) return it->second;
  int id = (int)NODES.size(); NODES.push_back(n); INTERN.emplace(std::move(k), id); return id;
}
static int N_num(double v) { Node n; n.kind = ex::NUMBER; n.num = v; return mk(n); }
static int N_ref(int kind, int i) { Node n; n.kind = kind; n.idx = i; return mk(n); }
static int N_bool(bool b) { Node n; n.kind = ex::BOOL; n.idx = b; return mk(n); }
static int N_str(const std::string& s) { Node n; n.kind = ex::STRING; n.str = s; return mk(n); }
static int N_op(int kind, const std::vector<int>& kids) { Node n; n.kind = kind; n.kids = kids; return mk(n); }
static int N_call(int fid, const std::vector<int>& kids) {
  Node n; n.kind = ex::CALL; n.idx = fid; n.kids = kids; return mk(n);
}
static int N_pl(const std::vector<double>& data, int arg) {
  Node n; n.kind = ex::PLTERM; n.pl = data; n.kids = {arg}; return mk(n);
}

// s-expression form (printed in samples / violations, parsed again by --pair)
static std::string sx(int id) {
  const Node& n = NODES[id];
  std::string s = "("; s += kname(n.kind);
  char b[64];
  switch (cls(n.kind)) {
    case C_NUM: std::snprintf(b, sizeof b, " %.17g", n.num); s += b; break;
    case C_REF: case C_BOOL: s += " " + std::to_string(n.idx); break;
    case C_STR: s += " \"" + n.str + "\""; break;
    case C_CALL: s += n.idx == FLOC ? std::string(" floc") : " f" + std::to_string(n.idx); break;
    case C_PL:
      s += " [";
      for (size_t i = 0; i < n.pl.size(); ++i) { std::snprintf(b, sizeof b, i ? " %.17g" : "%.17g", n.pl[i]); s += b; }
      s += "]"; break;
    default: break;
  }
  for (int c : n.kids) s += " " + sx(c);
  return s + ")";
}
struct Parser {
  const std::string& s; size_t p = 0; bool ok = true;
  explicit Parser(const std::string& t) : s(t) {}
  void ws() { while (p < s.size() && std::isspace((unsigned char)s[p])) ++p; }
  std::string atom() { ws(); size_t b = p; while (p < s.size() && !std::isspace((unsigned char)s[p]) && !std::strchr("()[]\"", s[p])) ++p; return s.substr(b, p - b); }
  bool eat(char c) { ws(); if (p < s.size() && s[p] == c) { ++p; return true; } return false; }
  int parse() {
    if (!eat('(')) { ok = false; return -1; }
    std::string name = atom();
    int kind = -1; for (int i = 0; i < NKT; ++i) if (name == KTAB[i].name) kind = KTAB[i].k;
    if (kind < 0) { ok = false; return -1; }
    Node n; n.kind = kind;
    switch (cls(kind)) {
      case C_NUM: n.num = std::strtod(atom().c_str(), nullptr); break;
      case C_REF: case C_BOOL: n.idx = std::atoi(atom().c_str()); break;
      case C_STR: { if (!eat('"')) { ok = false; return -1; } size_t b = p; while (p < s.size() && s[p] != '"') ++p; n.str = s.substr(b, p - b); ++p; break; }
      case C_CALL: { std::string f = atom(); n.idx = f == "floc" ? FLOC : std::atoi(f.c_str() + 1); break; }
      case C_PL: { if (!eat('[')) { ok = false; return -1; } while (!eat(']')) { std::string a = atom(); if (a.empty()) { ok = false; return -1; } n.pl.push_back(std::strtod(a.c_str(), nullptr)); } break; }
      default: break;
    }
    while (ok && !eat(')')) { ws(); if (p >= s.size()) { ok = false; return -1; } int c = parse(); if (!ok) return -1; n.kids.push_back(c); }
    return mk(n);
  }
};

// ------------------------------------------------------------------------------- tree family
enum { M_CONST, M_INDEX, M_REFKIND, M_OP, M_ARITY, M_ORDER, M_FUNC, M_PLSLOPE, M_PLBREAK, M_PLCOUNT, M_PLORDER, NMUT };
static const char* MNAME[NMUT] = {"constant", "index", "reference-kind", "operator", "arity", "argument-order",
                                  "function", "pl-slope", "pl-breakpoint", "pl-count", "pl-order"};
struct Edge { int t; int label; };
static std::vector<int> TREES;                 // root node ids, distinct
static std::vector<const char*> FAM;           // family tag per tree
static std::vector<std::vector<Edge>> NBR;     // single-point-mutation relation between trees
static std::unordered_map<int, int> TREE_OF;
static long long NEDGES = 0;

static int add_tree(int id, const char* fam) {
  auto it = TREE_OF.find(id);
  if (it != TREE_OF.end()) return it->second;
  int t = (int)TREES.size(); TREES.push_back(id); FAM.push_back(fam); NBR.emplace_back(); TREE_OF[id] = t; return t;
}
static void add_edge(int t1, int t2, int label) {
  if (t1 == t2) return;
  for (auto& e : NBR[t1]) if (e.t == t2) return;
  NBR[t1].push_back({t2, label}); NBR[t2].push_back({t1, label}); ++NEDGES;
}

// all tuples over per-position alphabets
template <class F> static void product(const std::vector<const std::vector<int>*>& al, F f) {
  std::vector<int> ix(al.size(), 0), cur(al.size());
  for (auto* a : al) if (a->empty()) return;
  for (;;) {
    for (size_t i = 0; i < al.size(); ++i) cur[i] = (*al[i])[ix[i]];
    f(cur);
    size_t p = al.size();
    while (p-- > 0) { if (++ix[p] < (int)al[p]->size()) break; ix[p] = 0; }
    if (p == (size_t)-1) return;
  }
}
template <class F> static void power(const std::vector<int>& a, int n, F f) {
  std::vector<const std::vector<int>*> al(n, &a); product(al, f);
}

struct Mut { int id; int label; };
// every single-point mutation of a description, at any node of the tree
static void mutants(int id, bool full, std::vector<Mut>& out) {
  const Node n = NODES[id];   // copy: mk() may reallocate NODES
  Cls c = cls(n.kind);
  auto emit = [&](const Node& m, int label) { int mid = mk(m); if (mid != id) out.push_back({mid, label}); };
  const double VALS[] = {0.0, -0.0, 1.0, 2.5};
  switch (c) {
    case C_NUM: for (double v : VALS) if (dbits(v) != dbits(n.num)) { Node m = n; m.num = v; emit(m, M_CONST); } break;
    case C_REF: {
      for (int i = 0; i < (full ? 3 : 2); ++i) if (i != n.idx) { Node m = n; m.idx = i; emit(m, M_INDEX); }
      Node m = n; m.kind = n.kind == ex::VARIABLE ? ex::COMMON_EXPR : ex::VARIABLE; emit(m, M_REFKIND);
      break;
    }
    case C_BOOL: { Node m = n; m.idx = !n.idx; emit(m, M_CONST); break; }
    case C_STR: {
      const char* SV[] = {"", "a", "ab", "b"};
      for (int i = 0; i < (full ? 4 : 3); ++i) if (n.str != SV[i]) { Node m = n; m.str = SV[i]; emit(m, M_CONST); }
      break;
    }
    default: break;
  }
  // operator within its class
  {
    std::vector<int> ks = kinds_of(c);
    if (ks.size() > 1) {
      size_t me = std::find(ks.begin(), ks.end(), n.kind) - ks.begin();
      for (size_t d = 1; d < ks.size(); ++d) {
        int k2 = ks[(me + d) % ks.size()];
        if (k2 == ex::NUMBEROF && n.kids.empty()) continue;
        if (c == C_REF) break;   // handled above as reference-kind
        Node m = n; m.kind = k2; emit(m, M_OP);
        if (!full) break;        // lite: the next kind of the class only
      }
    }
  }
  // arity
  if (c == C_ITER || c == C_PAIR || c == C_COUNT || c == C_ITLOG || c == C_CALL || c == C_NOFSYM) {
    int minar = (n.kind == ex::NUMBEROF || c == C_NOFSYM) ? 1 : 0, sz = (int)n.kids.size();
    if (sz >= 1 && sz - 1 >= minar) { Node m = n; m.kids.pop_back(); emit(m, M_ARITY); }
    if (sz >= 2 && sz - 1 >= minar) { Node m = n; m.kids.erase(m.kids.begin()); emit(m, M_ARITY); }
    if (sz < 4) {
      int leaf = (c == C_COUNT || c == C_ITLOG) ? N_bool(true) : (c == C_CALL || c == C_NOFSYM) ? N_str("a") : N_num(2.5);
      Node m = n; m.kids.push_back(leaf); emit(m, M_ARITY);
    }
  }
  // argument order: swap two adjacent arguments of the same slot type
  {
    std::vector<int> pos;
    int sz = (int)n.kids.size();
    switch (c) {
      case C_BIN: case C_REL: case C_BINLOG: pos = {0}; break;
      case C_IF: case C_IFSYM: pos = {1}; break;
      case C_IMPL: pos = {0, 1}; break;
      case C_ITER: case C_PAIR: case C_COUNT: case C_ITLOG: case C_CALL: case C_NOFSYM:
        for (int i = 0; i + 1 < sz; ++i) pos.push_back(i); break;
      default: break;
    }
    for (int p : pos) if (n.kids[p] != n.kids[p + 1]) { Node m = n; std::swap(m.kids[p], m.kids[p + 1]); emit(m, M_ORDER); }
  }
  if (c == C_CALL) for (int f = 0; f < NFUNC; ++f) if (f != n.idx) { Node m = n; m.idx = f; emit(m, M_FUNC); }
  if (c == C_PL) {
    int nb = ((int)n.pl.size() - 1) / 2;
    const double ALT[] = {0.0, -0.0, 2.5};
    for (size_t i = 0; i < n.pl.size(); ++i) for (double v : ALT) if (dbits(v) != dbits(n.pl[i])) {
      Node m = n; m.pl[i] = v; emit(m, (i % 2) ? M_PLBREAK : M_PLSLOPE);
    }
    if (nb > 1) { Node m = n; m.pl.resize(m.pl.size() - 2); emit(m, M_PLCOUNT); }
    if (nb > 1) { Node m = n; m.pl.erase(m.pl.begin(), m.pl.begin() + 2); emit(m, M_PLCOUNT); }
    if (nb < 4) { Node m = n; m.pl.push_back(99); m.pl.push_back(7); emit(m, M_PLCOUNT); }
    for (size_t i = 0; i + 2 < n.pl.size(); ++i) if (dbits(n.pl[i]) != dbits(n.pl[i + 2])) {
      Node m = n; std::swap(m.pl[i], m.pl[i + 2]); emit(m, M_PLORDER);
    }
  }
  for (size_t p = 0; p < n.kids.size(); ++p) {
    std::vector<Mut> sub; mutants(n.kids[p], full, sub);
    for (auto& s : sub) { Node m = n; m.kids[p] = s.id; emit(m, s.label); }
  }
}

struct Bounds { long long leaves = 0, d1 = 0, d2slot = 0, d2prod = 0, pl = 0, mutated = 0, mut_new = 0; };
static Bounds BND;

static void generate(bool thorough) {
  std::vector<int> numL = {N_num(0.0), N_num(-0.0), N_num(1), N_num(2.5), N_ref(ex::VARIABLE, 0),
                           N_ref(ex::VARIABLE, 1), N_ref(ex::COMMON_EXPR, 0), N_ref(ex::COMMON_EXPR, 1)};
  std::vector<int> refL(numL.begin() + 4, numL.end());
  std::vector<int> logL = {N_bool(false), N_bool(true)};
  std::vector<int> strL = {N_str(""), N_str("a"), N_str("ab")};
  std::vector<int> anyL = numL; anyL.insert(anyL.end(), strL.begin(), strL.end());
  // arity-3 alphabets (quick: reduced; the remaining leaves occur at arity <= 2)
  std::vector<int> num3 = thorough ? numL : std::vector<int>{numL[0], numL[2], numL[4], numL[5]};
  std::vector<int> any3 = thorough ? anyL : std::vector<int>{numL[2], numL[4], strL[1], strL[2]};
  std::vector<int> anyS = {numL[2], numL[4], strL[0], strL[1]};
  const int v0 = numL[4], v1 = numL[5], one = numL[2], T = logL[1], F = logL[0], sa = strL[1];

  auto addall = [&](int id, const char* fam, long long& cnt) { size_t before = TREES.size(); add_tree(id, fam); cnt += TREES.size() - before; };

  // ---- leaves as roots
  for (int l : anyL) addall(l, "leaf", BND.leaves);
  for (int l : logL) addall(l, "leaf", BND.leaves);
  // ---- depth 1: every kind, every legal arity in {min..3}, all argument tuples over the leaves
  for (int k : kinds_of(C_UN)) for (int a : numL) addall(N_op(k, {a}), "d1", BND.d1);
  for (Cls c : {C_BIN, C_REL}) for (int k : kinds_of(c)) for (int a : numL) for (int b : numL) addall(N_op(k, {a, b}), "d1", BND.d1);
  for (int c : logL) for (int a : numL) for (int b : numL) addall(N_op(ex::IF, {c, a, b}), "d1", BND.d1);
  for (Cls c : {C_ITER, C_PAIR}) for (int k : kinds_of(c))
    for (int ar = (k == ex::NUMBEROF ? 1 : 0); ar <= 3; ++ar)
      power(ar == 3 ? num3 : numL, ar, [&](const std::vector<int>& kids) { addall(N_op(k, kids), "d1", BND.d1); });
  for (int ar = 1; ar <= 3; ++ar)
    power(ar == 3 ? any3 : anyL, ar, [&](const std::vector<int>& kids) { addall(N_op(ex::NUMBEROF_SYM, kids), "d1", BND.d1); });
  std::vector<int> counts;   // COUNT trees used as the right operand of logical-count kinds
  for (Cls c : {C_COUNT, C_ITLOG}) for (int k : kinds_of(c)) for (int ar = 0; ar <= 3; ++ar)
    power(logL, ar, [&](const std::vector<int>& kids) {
      int id = N_op(k, kids); addall(id, "d1", BND.d1);
      if (k == ex::COUNT && (thorough || ar <= 2)) counts.push_back(id);
    });
  for (int a : logL) addall(N_op(ex::NOT, {a}), "d1", BND.d1);
  for (int k : kinds_of(C_BINLOG)) for (int a : logL) for (int b : logL) addall(N_op(k, {a, b}), "d1", BND.d1);
  for (int a : logL) for (int b : logL) for (int c : logL) addall(N_op(ex::IMPLICATION, {a, b, c}), "d1", BND.d1);
  for (int k : kinds_of(C_LCOUNT)) for (int a : numL) for (int c : counts) addall(N_op(k, {a, c}), "d1", BND.d1);
  for (int f = 0; f < NFUNC; ++f) for (int ar = 0; ar <= 3; ++ar) {
    if (f != 0 && ar == 3 && !thorough) continue;
    const std::vector<int>& al = ar == 3 ? (f == 0 ? any3 : anyS) : (f == 0 || thorough) ? anyL : anyS;
    power(al, ar, [&](const std::vector<int>& kids) { addall(N_call(f, kids), "d1", BND.d1); });
  }
  for (int c : logL) for (int a : anyL) for (int b : anyL) addall(N_op(ex::IFSYM, {c, a, b}), "d1", BND.d1);
  // ---- piecewise-linear terms
  std::vector<int> plbase;
  {
    const double Z[] = {0.0, -0.0, 1.0};
    for (double s0 : Z) for (double b0 : Z) for (double s1 : Z) for (int r : refL) addall(N_pl({s0, b0, s1}, r), "pl", BND.pl);
    const double SL[] = {1, 2, 3, 4}, BP[] = {10, 20, 30};
    for (int nb = 1; nb <= 3; ++nb) for (int r : refL) {
      std::vector<double> d; for (int i = 0; i < nb; ++i) { d.push_back(SL[i]); d.push_back(BP[i]); } d.push_back(SL[nb]);
      int id = N_pl(d, r); addall(id, "pl", BND.pl); plbase.push_back(id);
    }
  }
  // ---- depth 2: one representative of every kind class below every kind
  const int plrep = N_pl({1, 10, 2}, v0);
  std::vector<int> numR = {one, v0, numL[6], N_op(ex::MINUS, {v0}), N_op(ex::ADD, {v0, one}), N_op(ex::IF, {T, v0, one}),
                           plrep, N_call(0, {v0, sa}), N_op(ex::MIN, {v0, one}), N_op(ex::SUM, {v0, v1, one}),
                           N_op(ex::NUMBEROF, {one, v0}), N_op(ex::COUNT, {T, F}), N_op(ex::NUMBEROF_SYM, {sa, v0})};
  const int cntT = N_op(ex::COUNT, {T});
  std::vector<int> logR = {T, N_op(ex::NOT, {T}), N_op(ex::OR, {T, F}), N_op(ex::LT, {v0, one}),
                           N_op(ex::ATLEAST, {one, cntT}), N_op(ex::IMPLICATION, {T, F, T}),
                           N_op(ex::EXISTS, {T, F}), N_op(ex::ALLDIFF, {v0, v1})};
  std::vector<int> anyR = numR; anyR.push_back(sa); anyR.push_back(N_op(ex::IFSYM, {T, sa, v0}));
  std::vector<int> cntR = {N_op(ex::COUNT, {}), cntT, N_op(ex::COUNT, {T, F}), N_op(ex::COUNT, {N_op(ex::NOT, {T})}),
                           N_op(ex::COUNT, {N_op(ex::LT, {v0, one}), T})};
  const int dN = numL[3], dL = F, dE = strL[2], dC = cntT;
  // depth-2 trees with exactly one non-leaf argument
  auto ds = [&](int id) { addall(id, "d2slot", BND.d2slot); };
  for (int k : kinds_of(C_UN)) for (int r : numR) ds(N_op(k, {r}));
  for (Cls c : {C_BIN, C_REL, C_ITER, C_PAIR}) for (int k : kinds_of(c)) for (int r : numR) { ds(N_op(k, {r, dN})); ds(N_op(k, {dN, r})); }
  for (int r : logR) ds(N_op(ex::IF, {r, dN, dN}));
  for (int r : numR) { ds(N_op(ex::IF, {dL, r, dN})); ds(N_op(ex::IF, {dL, dN, r})); }
  for (int r : anyR) { ds(N_op(ex::NUMBEROF_SYM, {r, dE})); ds(N_op(ex::NUMBEROF_SYM, {dE, r})); }
  for (Cls c : {C_COUNT, C_ITLOG, C_BINLOG}) for (int k : kinds_of(c)) for (int r : logR) { ds(N_op(k, {r, dL})); ds(N_op(k, {dL, r})); }
  for (int r : logR) ds(N_op(ex::NOT, {r}));
  for (int k : kinds_of(C_LCOUNT)) { for (int r : numR) ds(N_op(k, {r, dC})); for (int r : cntR) ds(N_op(k, {dN, r})); }
  for (int r : logR) { ds(N_op(ex::IMPLICATION, {r, dL, dL})); ds(N_op(ex::IMPLICATION, {dL, r, dL})); ds(N_op(ex::IMPLICATION, {dL, dL, r})); }
  for (int r : anyR) { ds(N_call(0, {r})); ds(N_call(0, {r, dE})); ds(N_call(0, {dE, r})); }
  for (int r : logR) ds(N_op(ex::IFSYM, {r, dE, dE}));
  for (int r : anyR) { ds(N_op(ex::IFSYM, {dL, r, dE})); ds(N_op(ex::IFSYM, {dL, dE, r})); }
  // full products of representatives below the first kind of a class (thorough: below every kind)
  auto firstonly = [&](Cls c) { std::vector<int> ks = kinds_of(c); if (!thorough) ks.resize(1); return ks; };
  for (Cls c : {C_BIN, C_REL, C_ITER, C_PAIR}) for (int k : firstonly(c)) for (int a : numR) for (int b : numR) addall(N_op(k, {a, b}), "d2prod", BND.d2prod);
  for (int k : firstonly(C_BINLOG)) for (int a : logR) for (int b : logR) addall(N_op(k, {a, b}), "d2prod", BND.d2prod);
  for (int a : anyR) for (int b : anyR) addall(N_call(0, {a, b}), "d2prod", BND.d2prod);
  if (thorough) {
    for (int c : logR) for (int a : numR) for (int b : numR) addall(N_op(ex::IF, {c, a, b}), "d2prod", BND.d2prod);
    for (int a : logR) for (int b : logR) for (int c : logR) addall(N_op(ex::IMPLICATION, {a, b, c}), "d2prod", BND.d2prod);
    for (int a : anyR) for (int b : anyR) addall(N_op(ex::NUMBEROF_SYM, {a, b}), "d2prod", BND.d2prod);
    for (int a : anyR) for (int b : anyR) addall(N_op(ex::IFSYM, {T, a, b}), "d2prod", BND.d2prod);
    for (int a : logR) for (int b : logR) addall(N_op(ex::COUNT, {a, b}), "d2prod", BND.d2prod);
    for (int a : logR) for (int b : logR) addall(N_op(ex::EXISTS, {a, b}), "d2prod", BND.d2prod);
  }
  // ---- single-point mutations (at any node of the target).  Targets: every leaf/PL tree, every depth-1 tree of
  // arity <= 2, and the depth-2 slot trees below the first kind of each class (thorough: below every kind).
  // Operator mutation: quick = the next kind of the class; thorough = every other kind of the class for the
  // small targets and the first-kind slot trees.
  struct Target { int id; bool full; };
  std::vector<Target> targets;
  size_t ngen = TREES.size();
  for (size_t t = 0; t < ngen; ++t) {
    int id = TREES[t];
    std::string f = FAM[t];
    int k = NODES[id].kind;
    bool first = kinds_of(cls(k))[0] == k;
    bool small = f == "leaf" || f == "pl" || (f == "d1" && NODES[id].kids.size() <= 2);
    bool take = small || (f == "d2slot" && (first || thorough));
    if (take) targets.push_back({id, thorough && (small || first)});
  }
  for (auto& tg : targets) {
    std::vector<Mut> ms; mutants(tg.id, tg.full, ms);
    int t = TREE_OF[tg.id]; ++BND.mutated;
    for (auto& m : ms) { size_t before = TREES.size(); int tm = add_tree(m.id, "mut"); BND.mut_new += TREES.size() - before; add_edge(t, tm, m.label); }
  }
}

// ------------------------------------------------------------------------------- per-node facts
static std::vector<char> SYM;      // contains NUMBEROF_SYM or IFSYM (kinds without comparator / hasher)
static std::vector<char> LOCALF;   // contains a call of the per-factory function
static std::vector<int> CANON;     // canonical id: numeric constants compared by value (-0.0 folded on 0.0)
static void derive() {
  size_t n = NODES.size(); SYM.assign(n, 0); LOCALF.assign(n, 0); CANON.assign(n, 0);
  std::unordered_map<std::string, int> cm;
  for (size_t i = 0; i < n; ++i) {   // children always have smaller ids
    const Node& x = NODES[i];
    SYM[i] = x.kind == ex::NUMBEROF_SYM || x.kind == ex::IFSYM;
    LOCALF[i] = x.kind == ex::CALL && x.idx == FLOC;
    for (int c : x.kids) { SYM[i] |= SYM[c]; LOCALF[i] |= LOCALF[c]; }
    Node y = x; auto nz = [](double d) { return d == 0 ? 0.0 : d; };
    y.num = nz(y.num); for (double& d : y.pl) d = nz(d); for (int& c : y.kids) c = CANON[c];
    auto it = cm.emplace(keyof(y), (int)cm.size()); CANON[i] = it.first->second;
  }
}
// kinds for which Equal may legitimately throw when both sides have them
static inline bool unsup(int root) { return SYM[root] || NODES[root].kind == ex::STRING; }

// reference structural equality on descriptions (ca/cb: which factory the tree is built in)
static bool ref_eq(int a, int ca, int b, int cb) {
  const Node &x = NODES[a], &y = NODES[b];
  if (x.kind != y.kind) return false;
  switch (cls(x.kind)) {
    case C_NUM: if (!(x.num == y.num)) return false; break;
    case C_REF: case C_BOOL: if (x.idx != y.idx) return false; break;
    case C_STR: if (x.str != y.str) return false; break;
    case C_CALL: if (x.idx != y.idx) return false; if (x.idx == FLOC && ca != cb) return false; break;
    case C_PL:
      if (x.pl.size() != y.pl.size()) return false;
      for (size_t i = 0; i < x.pl.size(); ++i) if (!(x.pl[i] == y.pl[i])) return false;
      break;
    default: break;
  }
  if (x.kids.size() != y.kids.size()) return false;
  for (size_t i = 0; i < x.kids.size(); ++i) if (!ref_eq(x.kids[i], ca, y.kids[i], cb)) return false;
  return true;
}
static inline bool canon_eq(int a, int ca, int b, int cb) {
  return CANON[a] == CANON[b] && (!LOCALF[a] || ca == cb);
}
static std::string shape(int id) {
  const Node& n = NODES[id]; std::string s = kname(n.kind);
  if (!n.kids.empty() && cls(n.kind) != C_PL) { s += "("; for (size_t i = 0; i < n.kids.size(); ++i) { if (i) s += ","; s += kname(NODES[n.kids[i]].kind); } s += ")"; }
  return s;
}

// ------------------------------------------------------------------------------- materialisation
static mp::ExprFactory* FAC[2];
static mp::ExprFactory* FFUN;
static mp::Function SHAREDF[NSHARED];
static mp::Function LOCF[2];
template <class T> static T as(mp::Expr e) { return mp::internal::UncheckedCast<T>(e); }

static mp::Expr build(int id, int copy) {
  mp::ExprFactory& f = *FAC[copy];
  const Node& n = NODES[id];
  ex::Kind k = (ex::Kind)n.kind;
  std::vector<mp::Expr> a; for (int c : n.kids) a.push_back(build(c, copy));
  typedef mp::NumericExpr NE; typedef mp::LogicalExpr LE;
  switch (cls(n.kind)) {
    case C_NUM: return f.MakeNumericConstant(n.num);
    case C_REF: return n.kind == ex::VARIABLE ? f.MakeVariable(n.idx) : f.MakeCommonExpr(n.idx);
    case C_UN: return f.MakeUnary(k, as<NE>(a[0]));
    case C_BIN: return f.MakeBinary(k, as<NE>(a[0]), as<NE>(a[1]));
    case C_IF: return f.MakeIf(as<LE>(a[0]), as<NE>(a[1]), as<NE>(a[2]));
    case C_PL: {
      int nb = ((int)n.pl.size() - 1) / 2;
      auto b = f.BeginPLTerm(nb);
      for (int i = 0; i < nb; ++i) { b.AddSlope(n.pl[2 * i]); b.AddBreakpoint(n.pl[2 * i + 1]); }
      b.AddSlope(n.pl[2 * nb]);
      return f.EndPLTerm(b, as<mp::Reference>(a[0]));
    }
    case C_CALL: {
      auto b = f.BeginCall(n.idx == FLOC ? LOCF[copy] : SHAREDF[n.idx], (int)a.size());
      for (auto& e : a) b.AddArg(e);
      return f.EndCall(b);
    }
    case C_ITER: {
      if (k == ex::NUMBEROF) {
        auto b = f.BeginNumberOf((int)a.size(), as<NE>(a[0]));
        for (size_t i = 1; i < a.size(); ++i) b.AddArg(as<NE>(a[i]));
        return f.EndNumberOf(b);
      }
      auto b = k == ex::SUM ? f.BeginSum((int)a.size()) : f.BeginIterated(k, (int)a.size());
      for (auto& e : a) b.AddArg(as<NE>(e));
      return k == ex::SUM ? f.EndSum(b) : f.EndIterated(b);
    }
    case C_NOFSYM: {
      auto b = f.BeginSymbolicNumberOf((int)a.size(), a[0]);
      for (size_t i = 1; i < a.size(); ++i) b.AddArg(a[i]);
      return f.EndSymbolicNumberOf(b);
    }
    case C_COUNT: { auto b = f.BeginCount((int)a.size()); for (auto& e : a) b.AddArg(as<LE>(e)); return f.EndCount(b); }
    case C_BOOL: return f.MakeLogicalConstant(n.idx != 0);
    case C_NOT: return f.MakeNot(as<LE>(a[0]));
    case C_BINLOG: return f.MakeBinaryLogical(k, as<LE>(a[0]), as<LE>(a[1]));
    case C_REL: return f.MakeRelational(k, as<NE>(a[0]), as<NE>(a[1]));
    case C_LCOUNT: return f.MakeLogicalCount(k, as<NE>(a[0]), as<mp::CountExpr>(a[1]));
    case C_IMPL: return f.MakeImplication(as<LE>(a[0]), as<LE>(a[1]), as<LE>(a[2]));
    case C_ITLOG: { auto b = f.BeginIteratedLogical(k, (int)a.size()); for (auto& e : a) b.AddArg(as<LE>(e)); return f.EndIteratedLogical(b); }
    case C_PAIR: { auto b = f.BeginPairwise(k, (int)a.size()); for (auto& e : a) b.AddArg(as<NE>(e)); return f.EndPairwise(b); }
    case C_STR: return f.MakeStringLiteral(n.str);
    case C_IFSYM: return f.MakeSymbolicIf(as<LE>(a[0]), a[1], a[2]);
    default: break;
  }
  std::abort();
}

// ------------------------------------------------------------------------------- observation
enum Out { O_FALSE = 0, O_TRUE = 1, O_UNSUP = 2, O_MPERR = 3, O_OTHER = 4 };
static const char* ONAME[] = {"false", "true", "UnsupportedError", "mp::Error", "non-mp exception"};
static std::string LASTMSG;   // what() of the last mp exception (only read when a violation is reported)
static bool KEEPMSG = false;
__attribute__((noinline)) static int do_equal(mp::Expr a, mp::Expr b) {
  try { return mp::Equal(a, b) ? O_TRUE : O_FALSE; }
  catch (const mp::UnsupportedError& e) { if (KEEPMSG) LASTMSG = e.what(); return O_UNSUP; }
  catch (const mp::Error& e) { if (KEEPMSG) LASTMSG = e.what(); return O_MPERR; }
  catch (...) { return O_OTHER; }
}
__attribute__((noinline)) static int do_hash(mp::Expr a, size_t& h) {
  try { h = std::hash<mp::Expr>()(a); return 0; }
  catch (const mp::UnsupportedError& e) { if (KEEPMSG) LASTMSG = e.what(); return O_UNSUP; }
  catch (const mp::Error& e) { if (KEEPMSG) LASTMSG = e.what(); return O_MPERR; }
  catch (...) { return O_OTHER; }
}

static const char* const THREW = "threw on kinds that have a comparator";
// verdict on one pair; nullptr = property holds.  Pure function of the observations (self-tested).
static const char* judge(bool ref, int o1, int o2, bool throw_ok, int hsa, int hsb, size_t ha, size_t hb) {
  if (o1 == O_OTHER || o2 == O_OTHER) return "non-mp exception";
  bool t1 = o1 >= O_UNSUP, t2 = o2 >= O_UNSUP;
  if ((t1 || t2) && !throw_ok) return THREW;
  if (!t1 && !t2 && o1 != o2) return "asymmetric";
  if ((!t1 && o1 == O_TRUE && !ref) || (!t2 && o2 == O_TRUE && !ref)) return "false-positive (structurally different trees compare equal)";
  if ((!t1 && o1 == O_FALSE && ref) || (!t2 && o2 == O_FALSE && ref)) return "false-negative (structurally equal trees compare unequal)";
  if ((o1 == O_TRUE || o2 == O_TRUE) && hsa == 0 && hsb == 0 && ha != hb) return "equal-but-different-hash";
  return nullptr;
}

// ------------------------------------------------------------------------------- shared state
enum { R_EQUAL, R_UNEQ_SAME, R_UNEQ_OTHER, R_THREW, R_MUT_UNEQ, R_MUT_EQ, NREL };
static const char* RNAME[NREL] = {"equal", "unequal-same-root-kind", "unequal-other-root-kind", "threw",
                                  "single-mutation-unequal", "single-mutation-equal"};
enum { ST_PAIRS, ST_EQCALLS, ST_REF_EQUAL, ST_SIMILAR, ST_SIMILAR_UNEQ, ST_SIMILAR_EQ, ST_THROWS, ST_HASH_EVALS,
       ST_HASH_THROWS, ST_EQ_HASH_CHECKED, ST_COLLISIONS, ST_COPY_PAIRS, ST_SKIPPED, ST_ORACLE_DISAGREE, ST_CRASHED, NST };
static const char* SNAME[NST] = {"pairs", "equal_calls", "ref_equal_pairs", "similar_pairs", "similar_unequal",
                                 "similar_equal", "equal_throws", "hash_evals", "hash_throws", "equal_true_hash_checked",
                                 "hash_collisions_among_unequal", "independent_copy_pairs", "pairs_skipped_after_crash",
                                 "oracle_cross_check_disagreements", "pairs_crashed"};
struct Shared {
  volatile long long ci, cj; volatile int op; volatile int done;
  long long cls[NKIND][NREL];
  long long mut[NMUT][2];
  long long st[NST];
  unsigned long long skip[320]; int nskip;
};
static Shared* SH;
static std::vector<mp::Expr> ITEM;     // item 2*t+c = tree t built in factory c
static size_t* HV; static unsigned char* HS;   // hash value / status per item (shared mapping)
static std::vector<int> SHAPE;         // shape id per tree
static std::vector<std::string> SHAPES;

template <class T> static T* shmap(size_t n) {
  void* p = mmap(nullptr, n * sizeof(T) + 64, PROT_READ | PROT_WRITE, MAP_SHARED | MAP_ANONYMOUS, -1, 0);
  if (p == MAP_FAILED) { std::perror("mmap"); std::exit(3); }
  std::memset(p, 0, n * sizeof(T)); return (T*)p;
}
static std::string pair_replay(long long i, long long j) {
  return "{\"a\":\"" + vx::jesc(sx(TREES[i >> 1])) + "\",\"ca\":" + std::to_string(i & 1) +
         ",\"b\":\"" + vx::jesc(sx(TREES[j >> 1])) + "\",\"cb\":" + std::to_string(j & 1) + "}";
}
static inline unsigned long long skipkey(long long i, long long j) {
  return ((unsigned long long)SHAPE[i >> 1] << 32) | (unsigned)SHAPE[j >> 1];
}

static void hash_loop(long long si) {
  for (long long i = si; i < (long long)ITEM.size(); ++i) {
    SH->ci = i; SH->cj = i; SH->op = 3;
    size_t h1 = 0, h2 = 0; int s1 = do_hash(ITEM[i], h1), s2 = do_hash(ITEM[i], h2);
    SH->op = 0;
    HV[i] = h1; HS[i] = (unsigned char)s1;
    SH->st[ST_HASH_EVALS] += 2; if (s1) SH->st[ST_HASH_THROWS]++;
    int root = TREES[i >> 1];
    std::string rp = pair_replay(i, i);
    if (s1 != s2 || (s1 == 0 && h1 != h2))
      R.violation(std::string("hash not deterministic: ") + kname(NODES[root].kind), "{\"expr\":\"" + vx::jesc(sx(root)) + "\"}", rp);
    if (s1 == O_OTHER) R.violation(std::string("hash threw a non-mp exception: ") + kname(NODES[root].kind), "{\"expr\":\"" + vx::jesc(sx(root)) + "\"}", rp);
    else if (s1 != 0 && !SYM[root]) {
      KEEPMSG = true; size_t h3; do_hash(ITEM[i], h3); KEEPMSG = false;
      R.violation(std::string("hash threw ") + ONAME[s1] + " \"" + LASTMSG + "\" on a tree without IFSYM/NUMBEROF_SYM",
                  "{\"expr\":\"" + vx::jesc(sx(root)) + "\",\"threw\":\"" + ONAME[s1] + "\",\"what\":\"" + vx::jesc(LASTMSG) + "\"}", rp);
    }
  }
  SH->done = 1;
}

static void pair_loop(long long si, long long sj) {
  const long long N = (long long)ITEM.size();
  std::vector<int> mark(TREES.size(), -1);
  bool disagreed = false;
  for (long long i = si; i < N; ++i) {
    if (!S.mine(i)) continue;
    const int ti = (int)(i >> 1), ci = (int)(i & 1), ra = TREES[ti], ka = NODES[ra].kind;
    for (auto& e : NBR[ti]) mark[e.t] = e.label;
    for (long long j = (i == si ? sj : i); j < N; ++j) {
      const int tj = (int)(j >> 1), cj = (int)(j & 1), rb = TREES[tj], kb = NODES[rb].kind;
      if (SH->nskip) {
        unsigned long long key = skipkey(i, j); bool sk = false;
        for (int q = 0; q < SH->nskip; ++q) if (SH->skip[q] == key) sk = true;
        if (sk) { SH->st[ST_SKIPPED]++; continue; }
      }
      SH->ci = i; SH->cj = j; SH->op = 1;
      int o1 = do_equal(ITEM[i], ITEM[j]);
      SH->op = 2;
      int o2 = i == j ? o1 : do_equal(ITEM[j], ITEM[i]);
      SH->op = 0;
      const bool r = ref_eq(ra, ci, rb, cj);
      if (r != canon_eq(ra, ci, rb, cj) && !disagreed) {
        disagreed = true; SH->st[ST_ORACLE_DISAGREE]++;
        R.broken("the two reference equalities disagree on " + sx(ra) + " vs " + sx(rb));
      }
      const bool throw_ok = unsup(ra) && unsup(rb);
      const char* v = judge(r, o1, o2, throw_ok, HS[i], HS[j], HV[i], HV[j]);
      const int lab = mark[tj];
      if (v) {
        KEEPMSG = true; LASTMSG.clear();
        int p1 = do_equal(ITEM[i], ITEM[j]), p2 = do_equal(ITEM[j], ITEM[i]);   // second evaluation before reporting
        KEEPMSG = false;
        if (p1 != o1 || p2 != o2) R.broken("Equal is not deterministic on " + sx(ra) + " vs " + sx(rb));
        std::string sig;
        if (v == THREW)   // one signature per unsupported-kind message, whatever the surrounding tree
          sig = std::string("Equal threw ") + ONAME[std::max(o1, o2)] + " \"" + LASTMSG + "\" on a pair without IFSYM/NUMBEROF_SYM/root STRING on both sides";
        else {
          sig = std::string("Equal ") + v + ": " + kname(ka) + " vs " + kname(kb);
          if (lab >= 0) sig += std::string(" [single mutation: ") + MNAME[lab] + "]";
          else if (ti == tj) sig += ci == cj ? " [same object]" : " [independent copies]";
        }
        char hb[64]; std::snprintf(hb, sizeof hb, "\"%zx\",\"hash_b\":\"%zx\"", HV[i], HV[j]);
        R.violation(sig, "{\"a\":\"" + vx::jesc(sx(ra)) + "\",\"b\":\"" + vx::jesc(sx(rb)) + "\",\"factory_a\":" + std::to_string(ci) +
                    ",\"factory_b\":" + std::to_string(cj) + ",\"reference_equal\":" + (r ? "true" : "false") +
                    ",\"Equal(a,b)\":\"" + ONAME[o1] + "\",\"Equal(b,a)\":\"" + ONAME[o2] + "\",\"what\":\"" + vx::jesc(LASTMSG) + "\",\"hash_a\":" + hb + "}",
                    pair_replay(i, j));
      }
      // counters
      long long* st = SH->st;
      st[ST_PAIRS]++; st[ST_EQCALLS] += i == j ? 1 : 2;
      const bool threw = o1 >= O_UNSUP || o2 >= O_UNSUP;
      if (threw) st[ST_THROWS]++;
      if (r) st[ST_REF_EQUAL]++;
      if (ti == tj && ci != cj) st[ST_COPY_PAIRS]++;
      if ((o1 == O_TRUE || o2 == O_TRUE) && !HS[i] && !HS[j]) st[ST_EQ_HASH_CHECKED]++;
      if (!r && !HS[i] && !HS[j] && HV[i] == HV[j]) st[ST_COLLISIONS]++;
      int rel = threw ? R_THREW : r ? R_EQUAL : ka == kb ? R_UNEQ_SAME : R_UNEQ_OTHER;
      SH->cls[ka][rel]++; if (kb != ka) SH->cls[kb][rel]++;
      if (lab >= 0) {
        st[ST_SIMILAR]++;
        if (r) { st[ST_SIMILAR_EQ]++; SH->cls[ka][R_MUT_EQ]++; SH->mut[lab][1]++; }
        else { st[ST_SIMILAR_UNEQ]++; SH->cls[ka][R_MUT_UNEQ]++; SH->mut[lab][0]++; }
      }
    }
    for (auto& e : NBR[ti]) mark[e.t] = -1;
  }
  SH->done = 1;
}

static std::string drain(int fd) {
  std::string s; char buf[4096]; ssize_t n;
  while ((n = read(fd, buf, sizeof buf)) > 0) if (s.size() < 6000) s.append(buf, (size_t)n);
  return s;
}
// first lines of a sanitizer report with pids / addresses removed (detail only)
static std::string strip_addr(const std::string& l) {
  std::string o;
  for (size_t p = 0; p < l.size();) {
    if (l.compare(p, 2, "0x") == 0) { size_t q = p + 2; while (q < l.size() && std::isxdigit((unsigned char)l[q])) ++q; if (q - p > 6) { p = q; if (p < l.size() && l[p] == ' ') ++p; continue; } }
    o += l[p++];
  }
  return o;
}
static std::string tidy(const std::string& err) {
  std::string o; size_t lines = 0;
  for (size_t p = 0; p < err.size() && lines < 8;) {
    size_t e = err.find('\n', p); if (e == std::string::npos) e = err.size();
    std::string l = err.substr(p, e - p); p = e + 1;
    bool head = l.find("ERROR:") != std::string::npos || l.find("runtime error") != std::string::npos;
    if (head || l.find("    #") != std::string::npos) {
      if (head) { size_t q = l.find("==ERROR"); if (q != std::string::npos) l = l.substr(q + 2); }
      o += strip_addr(l).substr(0, 220) + "\n"; ++lines;
      if (l.find("do_equal") != std::string::npos || l.find("do_hash") != std::string::npos) break;
    }
  }
  return o.empty() ? err.substr(0, 600) : o;
}
// "<function of the first frame in a .cc/.h file of the tree under test>: <error kind>", or "" if no report
static std::string crash_site(const std::string& err) {
  std::string what, fn;
  for (size_t p = 0; p < err.size();) {
    size_t e = err.find('\n', p); if (e == std::string::npos) e = err.size();
    std::string l = err.substr(p, e - p); p = e + 1;
    size_t q;
    if (what.empty() && (q = l.find("runtime error: ")) != std::string::npos) what = strip_addr(l.substr(q + 15));
    if (what.empty() && (q = l.find("ERROR: AddressSanitizer: ")) != std::string::npos) {
      what = l.substr(q + 25); size_t sp = what.find(" on "); if (sp != std::string::npos) what = what.substr(0, sp);
    }
    if (fn.empty() && l.find("    #") != std::string::npos && (q = l.find(" in ")) != std::string::npos &&
        (l.find("/src/") != std::string::npos) && l.find("/verif/") == std::string::npos) {
      std::string f = l.substr(q + 4);
      size_t an; while ((an = f.find("(anonymous namespace)::")) != std::string::npos) f.erase(an, 23);
      size_t par = f.find('('); if (par != std::string::npos) f = f.substr(0, par);
      size_t sp = f.find(' '); if (sp != std::string::npos) f = f.substr(0, sp);
      fn = f;
    }
  }
  if (what.empty() && fn.empty()) return "";
  return (fn.empty() ? std::string("?") : fn) + ": " + what.substr(0, 160);
}

// run body(start...) in forked children until it completes; every child death is one violation
template <class Body, class Next>
static void guarded(const char* what, Body body, Next next_after_crash) {
  int crashes = 0;
  for (;;) {
    std::fflush(stdout);
    int pfd[2]; if (pipe(pfd)) { std::perror("pipe"); std::exit(3); }
    SH->done = 0; SH->op = 0;
    pid_t p = fork();
    if (p < 0) { std::perror("fork"); std::exit(3); }
    if (p == 0) { close(pfd[0]); dup2(pfd[1], 2); close(pfd[1]); body(); std::fflush(stdout); _exit(0); }
    close(pfd[1]); std::string err = drain(pfd[0]); close(pfd[0]);
    int st = 0; waitpid(p, &st, 0);
    if (WIFEXITED(st) && WEXITSTATUS(st) == 0 && SH->done) return;
    if (SH->op == 0) {   // died outside Equal/hash: the harness itself is at fault
      R.broken(std::string(what) + " child died outside the code under test: " + err.substr(0, 800)); return;
    }
    long long i = SH->ci, j = SH->cj; int op = SH->op;
    int ra = TREES[i >> 1], rb = TREES[j >> 1];
    std::string how = WIFSIGNALED(st) ? "signal " + std::to_string(WTERMSIG(st)) : "exit " + std::to_string(WEXITSTATUS(st));
    std::string site = crash_site(err);
    std::string sig = std::string(op == 3 ? "hash" : "Equal") + " memory-error" + (site.empty() ? " (" + how + ")" : " in " + site) + " on " +
                      (op == 3 ? std::string(kname(NODES[ra].kind)) : std::string(kname(NODES[ra].kind)) + " vs " + kname(NODES[rb].kind));
    R.violation(sig, "{\"a\":\"" + vx::jesc(sx(ra)) + "\",\"b\":\"" + vx::jesc(sx(rb)) + "\",\"shapes\":\"" + shape(ra) + " vs " + shape(rb) + "\",\"call\":\"" +
                (op == 1 ? "Equal(a,b)" : op == 2 ? "Equal(b,a)" : "std::hash<mp::Expr>(a)") + "\",\"child\":\"" + how +
                "\",\"report\":\"" + vx::jesc(tidy(err)) + "\"}", pair_replay(i, j));
    if (op != 3 && SH->nskip < 320) SH->skip[SH->nskip++] = skipkey(i, j);
    if (op == 3) HS[i] = 9; else SH->st[ST_CRASHED]++;
    if (++crashes >= 300) { R.cap(std::string(what) + ": stopped after 300 crashes of the code under test"); return; }
    if (!next_after_crash(i, j)) return;
  }
}

static void self_test() {
  int z = N_num(0.0), nz = N_num(-0.0), v0 = N_ref(ex::VARIABLE, 0), one = N_num(1), sa = N_str("a");
  bool ok = ref_eq(z, 0, nz, 1) && !ref_eq(z, 0, one, 0) &&
            !ref_eq(N_op(ex::ADD, {v0, one}), 0, N_op(ex::ADD, {one, v0}), 1) &&
            !ref_eq(N_op(ex::MIN, {v0}), 0, N_op(ex::MIN, {v0, one}), 0) &&
            !ref_eq(N_call(0, {sa}), 0, N_call(2, {sa}), 0) && ref_eq(N_call(0, {sa}), 0, N_call(0, {sa}), 1) &&
            ref_eq(N_call(FLOC, {sa}), 0, N_call(FLOC, {sa}), 0) && !ref_eq(N_call(FLOC, {sa}), 0, N_call(FLOC, {sa}), 1) &&
            !ref_eq(v0, 0, N_ref(ex::COMMON_EXPR, 0), 0) && ref_eq(N_pl({0.0, 1, 2}, v0), 0, N_pl({-0.0, 1, 2}, v0), 1) &&
            !ref_eq(N_pl({1, 1, 2}, v0), 0, N_pl({1, 1, 3}, v0), 0);
  // the judge must reject deliberately wrong observations and accept right ones
  ok = ok && judge(false, O_TRUE, O_TRUE, false, 0, 0, 1, 1) && judge(true, O_FALSE, O_FALSE, false, 0, 0, 1, 1) &&
       judge(true, O_TRUE, O_FALSE, false, 0, 0, 1, 1) && judge(true, O_TRUE, O_TRUE, false, 0, 0, 1, 2) &&
       judge(false, O_UNSUP, O_FALSE, false, 0, 0, 1, 2) && judge(false, O_OTHER, O_FALSE, true, 0, 0, 1, 2) &&
       judge(false, O_TRUE, O_UNSUP, true, 0, 0, 1, 1) &&
       !judge(true, O_TRUE, O_TRUE, false, 0, 0, 7, 7) && !judge(false, O_FALSE, O_FALSE, false, 0, 0, 7, 7) &&
       !judge(true, O_UNSUP, O_UNSUP, true, O_UNSUP, O_UNSUP, 0, 0) && !judge(false, O_FALSE, O_UNSUP, true, 0, 0, 1, 2);
  // printer / parser round trip
  int t = N_call(FLOC, {N_pl({-0.0, 10, 2.5}, v0), N_str(""), N_op(ex::IFSYM, {N_bool(true), sa, one})});
  std::string s = sx(t); Parser ps(s); ok = ok && ps.parse() == t && ps.ok;
  if (!ok) R.broken("oracle self-test failed");
}

static void materialise() {
  FFUN = new mp::ExprFactory(); FAC[0] = new mp::ExprFactory(); FAC[1] = new mp::ExprFactory();
  for (int i = 0; i < NSHARED; ++i) SHAREDF[i] = FFUN->AddFunction(FUNCS[i].name, FUNCS[i].nargs, FUNCS[i].type);
  for (int c = 0; c < 2; ++c) LOCF[c] = FAC[c]->AddFunction("f", -1, mp::func::NUMERIC);
  ITEM.resize(TREES.size() * 2);
  for (size_t t = 0; t < TREES.size(); ++t) for (int c = 0; c < 2; ++c) ITEM[2 * t + c] = build(TREES[t], c);
  HV = shmap<size_t>(ITEM.size()); HS = shmap<unsigned char>(ITEM.size());
  std::unordered_map<std::string, int> sm; SHAPE.resize(TREES.size());
  for (size_t t = 0; t < TREES.size(); ++t) {
    auto it = sm.emplace(shape(TREES[t]), (int)SHAPES.size());
    if (it.second) SHAPES.push_back(it.first->first);
    SHAPE[t] = it.first->second;
  }
}

int main(int argc, char** argv) {
  S.parse(argc, argv);
  for (int i = 0; i < NKT; ++i) KBY[KTAB[i].k] = &KTAB[i];
  for (int k = ex::FIRST_EXPR; k <= ex::LAST_EXPR; ++k) if (!KBY[k]) { R.broken("expression kind " + std::to_string(k) + " is missing from the harness table"); R.done(); return 0; }
  bool thorough = vx::has_flag(argc, argv, "--thorough");
  SH = shmap<Shared>(1);
  self_test();

  if (vx::has_flag(argc, argv, "--pair")) {   // --pair <sexpr a> <factory a> <sexpr b> <factory b>
    int at = 1; while (std::strcmp(argv[at], "--pair")) ++at;
    if (at + 4 >= argc) { R.broken("--pair needs 4 arguments"); R.done(); return 0; }
    std::string sa = argv[at + 1], sb = argv[at + 3]; int ca = std::atoi(argv[at + 2]) & 1, cb = std::atoi(argv[at + 4]) & 1;
    Parser pa(sa), pb(sb); int a = pa.parse(), b = pb.parse();
    if (!pa.ok || !pb.ok) { R.broken("cannot parse replay expressions"); R.done(); return 0; }
    TREES = {a, b}; NBR.resize(2); FAM = {"replay", "replay"};
    derive(); materialise();
    const long long i = ca, j = 2 + cb;
    long long start = 0;
    guarded("hash", [&] { hash_loop(start); }, [&](long long ci, long long) { start = ci + 1; return start < 4; });
    guarded("pair", [&] {
      SH->ci = i; SH->cj = j; SH->op = 1; int o1 = do_equal(ITEM[i], ITEM[j]);
      SH->op = 2; int o2 = do_equal(ITEM[j], ITEM[i]); SH->op = 0;
      bool r = ref_eq(a, ca, b, cb);
      const char* v = judge(r, o1, o2, unsup(a) && unsup(b), HS[i], HS[j], HV[i], HV[j]);
      std::printf("{\"type\":\"sample\",\"v\":{\"reference_equal\":%s,\"Equal(a,b)\":\"%s\",\"Equal(b,a)\":\"%s\",\"hash_a\":\"%zx\",\"hash_b\":\"%zx\",\"hash_status\":[%d,%d]}}\n",
                  r ? "true" : "false", ONAME[o1], ONAME[o2], HV[i], HV[j], HS[i], HS[j]);
      if (v) R.violation(std::string("Equal ") + v + ": " + shape(a) + " vs " + shape(b), "null", pair_replay(i, j));
      SH->done = 1;
    }, [](long long, long long) { return false; });
    R.done();
    return 0;
  }

  generate(thorough);
  if (vx::has_flag(argc, argv, "--count")) { std::printf("trees=%zu nodes=%zu edges=%lld leaf=%lld d1=%lld pl=%lld d2slot=%lld d2prod=%lld mutated=%lld mut_new=%lld\n", TREES.size(), NODES.size(), NEDGES, BND.leaves, BND.d1, BND.pl, BND.d2slot, BND.d2prod, BND.mutated, BND.mut_new); return 0; }
  derive();
  materialise();
  const long long N = (long long)ITEM.size();

  // phase 1: hash of every item (each shard needs all of them)
  {
    long long start = 0;
    guarded("hash", [&] { hash_loop(start); }, [&](long long ci, long long) { start = ci + 1; return start < N; });
  }
  // phase 2: all unordered pairs of this shard's rows, both directions
  {
    long long si = 0, sj = 0;
    guarded("pair", [&] { pair_loop(si, sj); }, [&](long long ci, long long cj) { si = ci; sj = cj + 1; if (sj >= N) { si = ci + 1; sj = si; } return si < N; });
  }

  // ---- report
  if (SH->st[ST_SKIPPED]) R.cap(std::to_string(SH->st[ST_SKIPPED]) + " pairs with the same root/argument kinds as a crashing pair were skipped in shard " + std::to_string(S.i));
  for (int s = 0; s < NST; ++s) if (s != ST_HASH_EVALS && s != ST_HASH_THROWS) R.stats[SNAME[s]] = SH->st[s];
  std::set<int> rootkinds; for (int id : TREES) rootkinds.insert(NODES[id].kind);
  for (int k = 0; k < NKIND; ++k) for (int r = 0; r < NREL; ++r) if (SH->cls[k][r]) R.cls(std::string(kname(k)) + ":" + RNAME[r]);
  for (int m = 0; m < NMUT; ++m) {
    R.stats[std::string("mutation_pairs_unequal_") + MNAME[m]] = SH->mut[m][0];
    R.stats[std::string("mutation_pairs_equal_") + MNAME[m]] = SH->mut[m][1];
  }
  if (S.i == 0) {   // facts that are identical in every shard are reported once
    R.stats[SNAME[ST_HASH_EVALS]] = SH->st[ST_HASH_EVALS]; R.stats[SNAME[ST_HASH_THROWS]] = SH->st[ST_HASH_THROWS];
    R.stats["trees"] = (long long)TREES.size(); R.stats["items"] = N; R.stats["description_nodes"] = (long long)NODES.size();
    R.stats["root_kinds_built"] = (long long)rootkinds.size(); R.stats["kinds_in_enum"] = ex::LAST_EXPR - ex::FIRST_EXPR + 1;
    R.stats["mutation_edges"] = NEDGES;
    R.stats["trees_leaf"] = BND.leaves; R.stats["trees_depth1"] = BND.d1; R.stats["trees_pl"] = BND.pl;
    R.stats["trees_depth2_slot"] = BND.d2slot; R.stats["trees_depth2_product"] = BND.d2prod;
    R.stats["trees_mutated"] = BND.mutated; R.stats["trees_new_from_mutation"] = BND.mut_new;
    long long unsup_trees = 0; for (int id : TREES) unsup_trees += unsup(id);
    R.stats["trees_with_kinds_without_comparator"] = unsup_trees;
    std::set<unsigned long long> hs; long long hashed = 0; for (long long i = 0; i < N; ++i) if (!HS[i]) { hs.insert(HV[i]); ++hashed; }
    R.stats["items_hashed"] = hashed; R.stats["distinct_hash_values"] = (long long)hs.size();
    std::set<int> canon; for (int id : TREES) canon.insert(CANON[id]);
    R.stats["reference_equivalence_classes"] = (long long)canon.size();
    R.sample_cap = 12;
    const char* want[] = {"d1", "pl", "d2slot", "d2prod", "mut"};
    for (const char* w : want) {
      std::vector<size_t> of; for (size_t t = 0; t < TREES.size(); ++t) if (!std::strcmp(FAM[t], w)) of.push_back(t);
      if (!of.empty()) { size_t t = of[of.size() * 2 / 3]; R.sample("{\"family\":\"" + std::string(w) + "\",\"tree\":\"" + vx::jesc(sx(TREES[t])) + "\"}"); }
    }
    for (int lab : {(int)M_ORDER, (int)M_ARITY, (int)M_CONST, (int)M_FUNC, (int)M_PLSLOPE}) {
      bool shown = false; size_t nth = 0;
      for (size_t t = 0; t < TREES.size() && !shown; ++t) for (auto& e : NBR[t]) if (e.label == lab && ++nth == 40) {
        R.sample("{\"pair\":[\"" + vx::jesc(sx(TREES[t])) + "\",\"" + vx::jesc(sx(TREES[e.t])) + "\"],\"single_mutation\":\"" + MNAME[lab] +
                 "\",\"reference_equal\":" + (ref_eq(TREES[t], 0, TREES[e.t], 1) ? "true" : "false") + "}");
        shown = true; break;
      }
    }
  }
  R.done();
  return 0;
}
