// C08: bounded exhaustive exploration of the matrix ("easy") NL API.
//
//   caller's data --mp::NLModel/NLSolver::LoadModel--> <stub>.nl/.col/.row
//        --REAL mp::ReadNLFile--> mp::Problem   compared, through the permutation the writer
//        reports, with the caller's data (reference model below: no permutation, dense).
//   reference .sol writer --> <stub>.sol --NLSolver::ReadSolution--> NLSolution compared with the
//        caller-order solution the .sol encodes; objective recomputed by NLModel::ComputeObjValue.
//   A subset additionally through the C API (NLW2_*): byte-identical files, identical solution.
//
// Process structure: every shard is a supervisor that forks a worker; the worker streams one
// result record per case through a pipe.  A worker death (sanitizer abort, SEGV) becomes a
// `crash` violation naming the stage, and a new worker continues behind the crashing case.
#include <unistd.h>
#include <fcntl.h>
#include <signal.h>
#include <sys/wait.h>
#include <sys/mman.h>
#include <sys/stat.h>
#include <cerrno>
#include <cmath>
#include <fstream>
#include <iterator>
#include <limits>
#include <ctime>
#include <array>
#include <tuple>
#include <memory>
#include <algorithm>
#include <cctype>

#include "mp/nl-solver.hpp"
#include "api/c/nl-solver-c.h"
#include "mp/nl-reader.h"
#include "mp/problem.h"
#include "explore.h"

static const double INF = std::numeric_limits<double>::infinity();

// ------------------------------------------------------------------------------------ case
struct Case {
  int n = 3;            // columns
  int t[3] = {0, 0, 0}; // column type alphabet index
  unsigned hm = 0;      // Hessian support: bit i*n+j
  int hf = 2;           // declared format: 1 triangular, 2 square
  int hd = 0;           // 1: first stored entry duplicated (second copy has value 31)
  int cs = 7;           // objective coefficient support bitmask; -1: nullptr
  int sense = 0;        // 0 min 1 max
  int off = 1;          // offset index {0, 1.5, -7.5}
  int m = 2;            // rows
  unsigned am = 63;     // A support: bit r*n+j
  int rk[2] = {3, 4};   // row kind: 0 free 1 <= 2 >= 3 range 4 ==
  int ws = 7;           // warm start support (columns)
  int dws = 3;          // dual warm start support (rows)
  unsigned sf = 0x13;   // suffix kinds present: bit k (k = kind | 4*real), default var-int, con-int, var-real
  int nm = 1;           // names present
  int tn = 0;           // 1: pass type_ = NULL when all columns continuous
  int fmt = 1;          // 0 binary, 1 text, 2 text + comments
  int capi = 0;         // also run the C API
  int solve = 0;        // also run NLSolver::Solve(model, "true", "")
  std::string str() const {
    char b[256];
    std::snprintf(b, sizeof b, "n=%d t=%d%d%d hm=%u hf=%d hd=%d cs=%d se=%d of=%d m=%d am=%u rk=%d%d ws=%d dw=%d "
                  "sf=%u nm=%d tn=%d fm=%d ca=%d so=%d", n, t[0], t[1], t[2], hm, hf, hd, cs, sense, off, m, am,
                  rk[0], rk[1], ws, dws, sf, nm, tn, fmt, capi, solve);
    return b;
  }
  static bool parse(const char* s, Case& c) {
    int t3 = 0, rk2 = 0;
    int k = std::sscanf(s, "n=%d t=%d hm=%u hf=%d hd=%d cs=%d se=%d of=%d m=%d am=%u rk=%d ws=%d dw=%d sf=%u nm=%d "
                        "tn=%d fm=%d ca=%d so=%d", &c.n, &t3, &c.hm, &c.hf, &c.hd, &c.cs, &c.sense, &c.off, &c.m,
                        &c.am, &rk2, &c.ws, &c.dws, &c.sf, &c.nm, &c.tn, &c.fmt, &c.capi, &c.solve);
    c.t[0] = t3 / 100; c.t[1] = t3 / 10 % 10; c.t[2] = t3 % 10; c.rk[0] = rk2 / 10; c.rk[1] = rk2 % 10;
    return k == 19;
  }
};

// column type alphabet
static const double T_LB[6] = {-INF, 0, 0, -2, 0, 0};
static const double T_UB[6] = {INF, 1, 1, 5, 0, 0};
static const int T_INT[6] = {0, 0, 1, 1, 1, 0};
static const char* T_NAME[6] = {"free", "c01", "bin", "int-2..5", "int00", "c00"};
// values (all dyadic rationals with few bits: every reference computation is exact in double)
static const double QV[3][3] = {{3, -5, 7}, {11, 13, -17}, {19, -23, 29}};
static const double QDUP = 31;
static const double CV[3] = {2.5, -3, 4.25};
static const double OFFV[3] = {0, 1.5, -7.5};
static const double AV[2][3] = {{7, -2, 3}, {-4, 5, 9}};
static const double RK_LB[5] = {-INF, -INF, -3, -3, 2.5};
static const double RK_UB[5] = {INF, 4, INF, 4, 2.5};
static const char* RK_NAME[5] = {"free", "le", "ge", "range", "eq"};
static const double WSV[3] = {10.5, -11.25, 12};
static const double DWSV[2] = {-20.5, 21};
static const char* COLNAME[3] = {"xa", "yb_long", "zc"};
static const char* ROWNAME[2] = {"r0", "row1x"};
static const char* OBJNAME = "cost";
static const char* PROBNAME = "c08prob";
// model suffixes: index k = kind | 4*real
static const char* SUFNAME[8] = {"sfx", "sfx", "oi", "pi", "vr", "cr", "orr", "prr"};
static const double SUF_VAR_I[3] = {3, 0, 9}, SUF_VAR_R[3] = {1.25, -2.5, 0.5};
static const double SUF_CON_I[2] = {5, 7}, SUF_CON_R[2] = {0, 1.75};
static const double SUF_OBJ_I = 4, SUF_OBJ_R = -0.75, SUF_PRB_I = 6, SUF_PRB_R = 8.5;
// solution data
static const double XV[3] = {1.5, -2, 4};
static const double YV[2] = {0.25, -7};
static const char* SSUFNAME[8] = {"sfx", "cstat", "oso", "pso", "vsr", "csr", "osr", "psr"};
static const double SS_VAR_I[3] = {2, 5, 0}, SS_VAR_R[3] = {0, 0.5, -6.25};
static const double SS_CON_I[2] = {0, 3}, SS_CON_R[2] = {2.75, -1};
static const double SS_OBJ_I = 7, SS_OBJ_R = 3.5, SS_PRB_I = 9, SS_PRB_R = -4.5;

struct Entry { int i, j; double v; };

// Caller-side data with stable addresses ("all pointers should stay valid")
struct Data {
  Case c;
  std::vector<double> lb, ub; std::vector<int> type; std::vector<const char*> cnames;
  std::vector<double> rlb, rub; std::vector<size_t> astart; std::vector<int> aindex; std::vector<double> avalue;
  std::vector<const char*> rnames;
  std::vector<double> cvec;
  std::vector<Entry> H; std::vector<size_t> qstart; std::vector<int> qindex; std::vector<double> qvalue;
  std::vector<int> wsi; std::vector<double> wsv; std::vector<int> dwi; std::vector<double> dwv;
  std::vector<double> sufv[8];
  bool allcont = true;
  mutable std::string hclass_cache;
  std::set<int> nlvars;      // columns occurring in a stored Hessian entry
  explicit Data(const Case& cc) : c(cc) {
    int n = c.n;
    for (int j = 0; j < n; ++j) {
      lb.push_back(T_LB[c.t[j]]); ub.push_back(T_UB[c.t[j]]); type.push_back(T_INT[c.t[j]]);
      if (T_INT[c.t[j]]) allcont = false;
      cnames.push_back(COLNAME[j]);
      cvec.push_back(c.cs >= 0 && (c.cs >> j & 1) ? CV[j] : 0.0);
    }
    for (int r = 0; r < c.m; ++r) {
      rlb.push_back(RK_LB[c.rk[r]]); rub.push_back(RK_UB[c.rk[r]]); rnames.push_back(ROWNAME[r]);
      astart.push_back(aindex.size());
      for (int j = 0; j < n; ++j) if (c.am >> (r * n + j) & 1) { aindex.push_back(j); avalue.push_back(AV[r][j]); }
    }
    bool first = true;
    for (int i = 0; i < n; ++i) {
      qstart.push_back(qindex.size());
      for (int j = 0; j < n; ++j) if (c.hm >> (i * n + j) & 1) {
        H.push_back({i, j, QV[i][j]}); qindex.push_back(j); qvalue.push_back(QV[i][j]);
        if (first && c.hd) { H.push_back({i, j, QDUP}); qindex.push_back(j); qvalue.push_back(QDUP); }
        first = false;
        nlvars.insert(i); nlvars.insert(j);
      }
    }
    for (int j = 0; j < n; ++j) if (c.ws >> j & 1) { wsi.push_back(j); wsv.push_back(WSV[j]); }
    for (int r = 0; r < c.m; ++r) if (c.dws >> r & 1) { dwi.push_back(r); dwv.push_back(DWSV[r]); }
    for (int k = 0; k < 8; ++k) sufv[k] = model_suffix(k);
  }
  int sufsize(int k) const { return (k & 3) == 0 ? c.n : (k & 3) == 1 ? c.m : 1; }
  std::vector<double> model_suffix(int k) const {
    std::vector<double> v;
    for (int i = 0; i < sufsize(k); ++i)
      switch (k) {
        case 0: v.push_back(SUF_VAR_I[i]); break; case 4: v.push_back(SUF_VAR_R[i]); break;
        case 1: v.push_back(SUF_CON_I[i]); break; case 5: v.push_back(SUF_CON_R[i]); break;
        case 2: v.push_back(SUF_OBJ_I); break; case 6: v.push_back(SUF_OBJ_R); break;
        case 3: v.push_back(SUF_PRB_I); break; default: v.push_back(SUF_PRB_R); break;
      }
    return v;
  }
  std::vector<double> sol_suffix(int k) const {
    std::vector<double> v;
    for (int i = 0; i < sufsize(k); ++i)
      switch (k) {
        case 0: v.push_back(SS_VAR_I[i]); break; case 4: v.push_back(SS_VAR_R[i]); break;
        case 1: v.push_back(SS_CON_I[i]); break; case 5: v.push_back(SS_CON_R[i]); break;
        case 2: v.push_back(SS_OBJ_I); break; case 6: v.push_back(SS_OBJ_R); break;
        case 3: v.push_back(SS_PRB_I); break; default: v.push_back(SS_PRB_R); break;
      }
    return v;
  }
  // The documented formula: c0 + c.x + 0.5 x'Qx with Q the stored matrix (duplicates add up).
  // symmetric=true: alternative reading of the triangular format (off-diagonal entries stand for
  // both (i,j) and (j,i)); only observed, never demanded.
  double ref_obj(const double* x, bool symmetric = false) const {
    double r = OFFV[c.off];
    for (int j = 0; j < c.n; ++j) r += cvec[j] * x[j];
    for (auto& e : H) r += ((symmetric && e.i != e.j) ? 1.0 : 0.5) * e.v * x[e.i] * x[e.j];
    return r;
  }
};

// ------------------------------------------------------------------------------------ reporting
// Worker side: per-case record, flushed through the pipe to the supervisor.
struct CaseLog {
  std::set<std::string> classes;
  std::vector<std::array<std::string, 3>> viol;   // sig, detail(json), replay(json)
  std::vector<std::string> samples;
  void clear() { classes.clear(); viol.clear(); samples.clear(); }
};
static CaseLog L;
static std::string g_tag;           // "" or "[C API] "
static const Case* g_case = nullptr;
static bool g_keep = false;
static int g_corrupt = 0;           // self-test: 1 = oracle expects a wrong permutation, 2 = wrong objective

static std::set<std::string> g_case_sigs;   // untagged signatures already raised for the C++ path of this case
static std::set<std::string> g_sent_sigs;   // signatures this process already reported (the supervisor keeps one per signature)
static bool viol_wanted(const std::string& sig) {
  if (g_tag.empty()) g_case_sigs.insert(sig);
  else if (g_case_sigs.count(sig)) return false;   // same finding as on the C++ path: not a C API finding
  return !g_sent_sigs.count("C08 " + g_tag + sig);
}
#define VIOL(sig, what) do { std::string sig_ = (sig); if (viol_wanted(sig_)) viol(sig_, (what)); } while (0)
static void viol(const std::string& sig, const std::string& what) {
  g_sent_sigs.insert("C08 " + g_tag + sig);
  std::string d = "{\"case\":\"" + vx::jesc(g_case ? g_case->str() : "") + "\",\"what\":\"" + vx::jesc(what) + "\"}";
  std::string r = "{\"case\":\"" + vx::jesc(g_case ? g_case->str() : "") + "\"}";
  L.viol.push_back({"C08 " + g_tag + sig, d, r});
}
static bool g_want_detail = true;   // false while judging a case whose finding was already reported
static std::string fmtd(double v) { char b[40]; std::snprintf(b, sizeof b, "%.17g", v); return b; }
static std::string vecs(const std::vector<int>& v) { std::string s = "["; for (size_t i = 0; i < v.size(); ++i) { if (i) s += ","; s += std::to_string(v[i]); } return s + "]"; }
static std::string vecd(const std::vector<double>& v) { std::string s = "["; for (size_t i = 0; i < v.size(); ++i) { if (i) s += ","; s += fmtd(v[i]); } return s + "]"; }

// counters live in memory shared with the supervisor: they survive a worker crash
struct StatTab { int n; char name[96][48]; long long v[96]; };
static StatTab* STAT = nullptr;
static void stat(const char* name, long long d = 1) {
  for (int i = 0; i < STAT->n; ++i) if (!std::strcmp(STAT->name[i], name)) { STAT->v[i] += d; return; }
  if (STAT->n >= 96) return;
  std::snprintf(STAT->name[STAT->n], 48, "%s", name); STAT->v[STAT->n++] = d;
}
// shared with the supervisor: where the worker is
struct Shared { volatile long long seq; volatile int stage; };
static Shared* SH = nullptr;
enum Stage { ST_IDLE, ST_BUILD, ST_LOAD, ST_READNL, ST_ORACLE, ST_SOLWRITE, ST_READSOL, ST_OBJVAL, ST_SOLVE, ST_CAPI_LOAD,
             ST_CAPI_READSOL, ST_CAPI_OBJVAL, ST_CLEANUP };
static const char* STAGE_NAME[] = {"idle", "harness build-data", "NLSolver::LoadModel", "mp::ReadNLFile (read-back)",
  "harness oracle", "harness sol-writer", "NLSolver::ReadSolution", "NLModel::ComputeObjValue", "NLSolver::Solve",
  "NLW2_LoadNLModel_C", "NLW2_ReadSolution_C", "NLW2_ComputeObjValue_C", "cleanup"};
static bool g_bench = false; static double g_bench_t[16]; static int g_bench_cur = 0; static struct timespec g_bench_last;
static void stage(int s) {
  if (SH) SH->stage = s;
  if (g_bench) {
    struct timespec now; clock_gettime(CLOCK_MONOTONIC, &now);
    g_bench_t[g_bench_cur] += (now.tv_sec - g_bench_last.tv_sec) + 1e-9 * (now.tv_nsec - g_bench_last.tv_nsec);
    g_bench_last = now; g_bench_cur = s;
  }
}

// ------------------------------------------------------------------------------------ files
static std::string g_dir;   // scratch directory of this shard
static bool slurp(const std::string& path, std::string& out) {
  std::ifstream f(path, std::ios::binary);
  if (!f) return false;
  out.assign(std::istreambuf_iterator<char>(f), std::istreambuf_iterator<char>());
  return true;
}
static void spit(const std::string& path, const std::string& s) {
  ::unlink(path.c_str());      // never truncate-and-rewrite (ext4 flushes such files synchronously on close)
  int fd = ::open(path.c_str(), O_WRONLY | O_CREAT | O_EXCL, 0666);
  if (fd < 0) return;
  size_t off = 0; while (off < s.size()) { ssize_t k = ::write(fd, s.data() + off, s.size() - off); if (k <= 0) break; off += k; }
  ::close(fd);
}
static std::vector<std::string> lines_of(const std::string& s) {
  std::vector<std::string> v; std::string cur;
  for (char ch : s) { if (ch == '\n') { v.push_back(cur); cur.clear(); } else cur += ch; }
  if (!cur.empty()) v.push_back(cur);
  return v;
}

// ------------------------------------------------------------------------------------ NL header (always text)
struct Hdr { bool ok = false; int nvars, ncons, nobjs, nranges, neqns; int nlc, nlo; int nlvc, nlvo, nlvb;
             int nbv, niv, nlvbi, nlvci, nlvoi; long nzJ, nzG; char fmtc; };
static Hdr parse_header(const std::string& nl) {
  Hdr h; auto ls = std::vector<std::string>();
  size_t pos = 0;
  for (int i = 0; i < 10 && pos < nl.size(); ++i) {
    size_t e = nl.find('\n', pos); if (e == std::string::npos) return h;
    ls.push_back(nl.substr(pos, e - pos)); pos = e + 1;
  }
  if (ls.size() < 10) return h;
  h.fmtc = ls[0].empty() ? '?' : ls[0][0];
  if (std::sscanf(ls[1].c_str(), "%d %d %d %d %d", &h.nvars, &h.ncons, &h.nobjs, &h.nranges, &h.neqns) != 5) return h;
  if (std::sscanf(ls[2].c_str(), "%d %d", &h.nlc, &h.nlo) != 2) return h;
  if (std::sscanf(ls[4].c_str(), "%d %d %d", &h.nlvc, &h.nlvo, &h.nlvb) != 3) return h;
  if (std::sscanf(ls[6].c_str(), "%d %d %d %d %d", &h.nbv, &h.niv, &h.nlvbi, &h.nlvci, &h.nlvoi) != 5) return h;
  if (std::sscanf(ls[7].c_str(), "%ld %ld", &h.nzJ, &h.nzG) != 2) return h;
  h.ok = true; return h;
}

// ------------------------------------------------------------------------------------ evaluator of the read-back objective
struct Unsupported { std::string kind; };
static double eval(mp::NumericExpr e, const double* x) {
  using namespace mp;
  switch (e.kind()) {
    case expr::NUMBER: return Cast<NumericConstant>(e).value();
    case expr::VARIABLE: return x[Cast<Reference>(e).index()];
    case expr::MINUS: return -eval(Cast<UnaryExpr>(e).arg(), x);
    case expr::POW2: { double a = eval(Cast<UnaryExpr>(e).arg(), x); return a * a; }
    case expr::ADD: { auto b = Cast<BinaryExpr>(e); return eval(b.lhs(), x) + eval(b.rhs(), x); }
    case expr::SUB: { auto b = Cast<BinaryExpr>(e); return eval(b.lhs(), x) - eval(b.rhs(), x); }
    case expr::MUL: { auto b = Cast<BinaryExpr>(e); return eval(b.lhs(), x) * eval(b.rhs(), x); }
    case expr::POW_CONST_EXP: {
      auto b = Cast<BinaryExpr>(e); double p = eval(b.rhs(), x), a = eval(b.lhs(), x);
      if (p == 2) return a * a;
      throw Unsupported{"^const!=2"};
    }
    case expr::SUM: { double s = 0; for (auto a : Cast<IteratedExpr>(e)) s += eval(a, x); return s; }
    default: throw Unsupported{expr::str(e.kind())};
  }
}
static void collect_vars(mp::NumericExpr e, std::set<int>& out) {
  using namespace mp;
  switch (e.kind()) {
    case expr::VARIABLE: out.insert(Cast<Reference>(e).index()); break;
    case expr::MINUS: case expr::POW2: collect_vars(Cast<UnaryExpr>(e).arg(), out); break;
    case expr::ADD: case expr::SUB: case expr::MUL: case expr::POW_CONST_EXP: {
      auto b = Cast<BinaryExpr>(e); collect_vars(b.lhs(), out); collect_vars(b.rhs(), out); break; }
    case expr::SUM: for (auto a : Cast<IteratedExpr>(e)) collect_vars(a, out); break;
    default: break;
  }
}

static std::string normalize_msg(std::string m) {
  // drop scratch paths and positions: keep the diagnostic text only
  size_t p;
  while ((p = m.find(g_dir)) != std::string::npos) m.replace(p, g_dir.size(), "<dir>");
  if ((p = m.find(".nl:")) != std::string::npos) { size_t q = m.find(": ", p); if (q != std::string::npos) m = m.substr(q + 2); }
  std::string o;
  for (size_t i = 0; i < m.size(); ++i) {
    if (std::isdigit((unsigned char)m[i])) { if (o.empty() || o.back() != '#') o += '#'; }
    else o += m[i];
  }
  if (o.size() > 120) o.resize(120);
  return o;
}

// lenient read-back for text files: a `sum` (o54) with 1 or 2 arguments is rewritten to the
// argument itself / a binary plus so that the rest of the oracle can still be applied.
static bool patch_short_sums(const std::string& nl, std::string& out) {
  auto ls = lines_of(nl); bool changed = false; out.clear();
  for (size_t i = 0; i < ls.size(); ++i) {
    const std::string& l = ls[i];
    bool is_sum = l.compare(0, 3, "o54") == 0 && (l.size() == 3 || l[3] == '\t' || l[3] == ' ' || l[3] == '#');
    if (is_sum && i + 1 < ls.size()) {
      int k = std::atoi(ls[i + 1].c_str());
      if (k == 1) { ++i; changed = true; continue; }
      if (k == 2) { out += "o0\n"; ++i; changed = true; continue; }
    }
    out += l; out += '\n';
  }
  return changed;
}

// ------------------------------------------------------------------------------------ the oracle on written files
static bool valid_perm(const std::vector<int>& p, const std::vector<int>& pinv, int n) {
  if ((int)p.size() != n || (int)pinv.size() != n) return false;
  std::vector<int> seen(n, 0);
  for (int j = 0; j < n; ++j) { if (p[j] < 0 || p[j] >= n || seen[p[j]]++) return false; }
  for (int j = 0; j < n; ++j) if (pinv[p[j]] != j) return false;
  return true;
}
static std::string nnzclass(const Data& D) {
  int nnz = (int)D.H.size();
  return "nnz=" + std::string(nnz == 0 ? "0" : nnz == 1 ? "1" : nnz == 2 ? "2" : "3+");
}
// Input class of the Hessian used as signature discriminator: does the number of stored entries equal
// the number of distinct columns involved, and does every involved column occur as a column index?
static std::string hclass_compute(const Data& D) {
  if (D.H.empty()) return "no Hessian";
  std::set<int> cols; for (auto& e : D.H) cols.insert(e.j);
  bool clean = D.H.size() == D.nlvars.size() && cols == D.nlvars;
  return clean ? "Hessian: #entries == #distinct vars, all occur as column index"
               : "Hessian: #entries != #distinct vars or a var occurs only as row index";
}

static const std::string& hclass(const Data& D) {
  if (D.hclass_cache.empty()) D.hclass_cache = hclass_compute(D);
  return D.hclass_cache;
}
struct ReadBack { bool strict_ok = false, lenient_ok = false; };

static ReadBack check_written(const std::string& stub, const Data& D, std::vector<int> vperm, std::vector<int> vinv) {
  const Case& c = D.c; int n = c.n, m = c.m; ReadBack rb;
  if (g_corrupt == 1 && n >= 2) { std::swap(vperm[0], vperm[1]); vinv[vperm[0]] = 0; vinv[vperm[1]] = 1; }
  std::string nl;
  if (!slurp(stub + ".nl", nl)) { VIOL("no .nl file written", stub); return rb; }
  // ---- header class counts against the caller's data
  Hdr h = parse_header(nl);
  int exp_nlvo = (int)D.nlvars.size(), exp_nlvoi = 0, exp_nbv = 0, exp_niv = 0;
  for (int j = 0; j < n; ++j) if (D.type[j]) {
    if (D.nlvars.count(j)) ++exp_nlvoi;
    else if (D.lb[j] == 0 && D.ub[j] == 1) ++exp_nbv; else ++exp_niv;
  }
  if (!h.ok) VIOL("NL header unparsable", nl.substr(0, 200));
  else {
    stat("header_checks");
    char want = c.fmt == 0 ? 'b' : 'g';
    if (h.fmtc != want) VIOL("header format letter != requested format", std::string(1, h.fmtc));
    if (h.nvars != n || h.ncons != m || h.nobjs != 1)
      VIOL("header item counts (vars/cons/objs) wrong", nl.substr(0, 120));
    if (h.nlvo != exp_nlvo)
      VIOL(std::string("header nl-var count != distinct vars in Hessian (header ") + (h.nlvo > exp_nlvo ? ">" : "<") +
           " distinct; " + hclass(D) + ")", "num_nl_vars_in_objs=" + std::to_string(h.nlvo) + " distinct=" + std::to_string(exp_nlvo));
    if (h.nlvc != 0 || h.nlvb != 0 || h.nlc != 0) VIOL("header declares nonlinear constraints/vars in constraints", nl.substr(0, 200));
    if (h.nlo != (D.H.empty() ? 0 : 1)) VIOL("header num_nl_objs wrong", std::to_string(h.nlo));
    if (h.nlvoi != exp_nlvoi)
      VIOL("header num_nl_integer_vars_in_objs != integer vars in Hessian (" + hclass(D) + ")", "header=" + std::to_string(h.nlvoi) + " expected=" + std::to_string(exp_nlvoi));
    if (h.nlvbi != 0 || h.nlvci != 0) VIOL("header declares nonlinear integer vars in constraints", "");
    if (h.nbv != exp_nbv) VIOL("header num_linear_binary_vars != linear binary columns (" + hclass(D) + ")", "header=" + std::to_string(h.nbv) + " expected=" + std::to_string(exp_nbv));
    if (h.niv != exp_niv) VIOL("header num_linear_integer_vars != linear general-integer columns (" + hclass(D) + ")", "header=" + std::to_string(h.niv) + " expected=" + std::to_string(exp_niv));
    if (h.nzJ != (long)D.aindex.size()) VIOL("header Jacobian nonzeros != nnz(A)", std::to_string(h.nzJ));
  }
  bool perm_ok = valid_perm(vperm, vinv, n);
  if (!perm_ok) VIOL("reported permutation is not a bijection with consistent inverse", vecs(vperm) + vecs(vinv));
  else {
    // ---- block order of NL: [nonlinear cont, nonlinear int | linear cont, linear binary, linear int]
    stat("perm_checks");
    bool ident = true; for (int j = 0; j < n; ++j) if (vperm[j] != j) ident = false;
    if (!ident) stat("nonidentity_perm_models");
    auto cls = [&](int j) {
      bool nlv = D.nlvars.count(j) > 0;
      if (nlv) return D.type[j] ? 1 : 0;
      if (!D.type[j]) return 2;
      return (D.lb[j] == 0 && D.ub[j] == 1) ? 3 : 4;
    };
    for (int j = 0; j < n; ++j) if (D.nlvars.count(j) && vperm[j] >= exp_nlvo) {
      VIOL("nonlinear var placed outside the nonlinear block (" + hclass(D) + ")", "col " + std::to_string(j) + " -> pos " +
           std::to_string(vperm[j]) + " nl-block size " + std::to_string(exp_nlvo) + " perm " + vecs(vperm));
      break;
    }
    for (int p = 0; p + 1 < n; ++p) if (cls(vinv[p]) > cls(vinv[p + 1])) {
      static const char* CN[] = {"nl-cont", "nl-int", "lin-cont", "lin-bin", "lin-int"};
      VIOL("permuted order violates NL class order [nl-cont, nl-int | lin-cont, lin-bin, lin-int] (" + hclass(D) + ")",
           std::string(CN[cls(vinv[p])]) + " before " + CN[cls(vinv[p + 1])] + ", perm " + vecs(vperm));
      break;
    }
    // stability: equal classes keep the caller's relative order (documented stable sort) - observed only
  }
  // ---- names
  {
    std::string col, row; bool hc = slurp(stub + ".col", col), hr = slurp(stub + ".row", row);
    if (c.nm) {
      stat("name_checks");
      if (m == 0 && !hr) { hr = true; row = std::string(OBJNAME) + "\n"; }   // no rows: no row names were passed
      if (!hc || !hr) VIOL("names given but .col/.row missing", hc ? ".row" : ".col");
      else if (perm_ok) {
        auto cl = lines_of(col); bool ok = (int)cl.size() == n;
        for (int p = 0; ok && p < n; ++p) ok = cl[p] == COLNAME[vinv[p]];
        if (!ok) VIOL(".col names do not follow the permutation", vx::jesc(col) + " perm " + vecs(vperm));
        auto rl = lines_of(row); ok = (int)rl.size() == m + 1;
        for (int r = 0; ok && r < m; ++r) ok = rl[r] == ROWNAME[r];
        if (ok) ok = rl[m] == OBJNAME;
        if (!ok) VIOL(".row names wrong (rows then objective)", vx::jesc(row));
      }
    } else {
      if (hc || hr) VIOL("no names given but a (stale) .col/.row file is left next to the .nl", hc ? ".col" : ".row");
    }
  }
  // ---- read back with the real reader
  mp::Problem prob; bool have = false;
  stage(ST_READNL);
  try { mp::ReadNLFile(stub + ".nl", prob); have = true; rb.strict_ok = true; }
  catch (const std::exception& e) {
    std::string msg = normalize_msg(e.what());
    int nargs = (int)D.H.size() + (OFFV[c.off] != 0 ? 1 : 0);
    if (msg.find("too few arguments") != std::string::npos && !D.H.empty() && nargs < 3)
      VIOL("readback rejected: sum with <3 args (hessian " + nnzclass(D) + ", summands=" + std::to_string(nargs) + ")", e.what());
    else
      VIOL("readback rejected: " + msg + " (" + hclass(D) + ")", e.what());
    L.classes.insert(g_tag + "readback:rejected:" + msg);
  }
  stage(ST_ORACLE);
  stat("readback_attempts");
  std::unique_ptr<mp::Problem> prob2;
  mp::Problem* P = have ? &prob : nullptr;
  if (!have && c.fmt != 0) {
    std::string patched;
    if (patch_short_sums(nl, patched)) {
      spit(stub + "_p.nl", patched);
      prob2.reset(new mp::Problem);
      stage(ST_READNL);
      try { mp::ReadNLFile(stub + "_p.nl", *prob2); P = prob2.get(); rb.lenient_ok = true; stat("readback_lenient_after_sum_patch"); }
      catch (const std::exception& e) { L.classes.insert(g_tag + "readback-lenient:rejected:" + normalize_msg(e.what())); }
      stage(ST_ORACLE);
      ::unlink((stub + "_p.nl").c_str());
    }
  }
  if (!P) { stat("readback_failed"); return rb; }
  stat("readback_ok");
  mp::Problem& p = *P;
  if (p.num_vars() != n || p.num_algebraic_cons() != m || p.num_objs() != 1 || p.num_logical_cons() != 0) {
    VIOL("readback item counts differ", std::to_string(p.num_vars()) + "/" + std::to_string(p.num_algebraic_cons()) + "/" + std::to_string(p.num_objs()));
    return rb;
  }
  if (!perm_ok) return rb;
  // bounds, integrality
  bool any_int = false, any_h = !D.H.empty();
  for (int j = 0; j < n; ++j) {
    auto v = p.var(vperm[j]); stat("var_checks");
    if (v.lb() != D.lb[j] || v.ub() != D.ub[j])
      VIOL("readback bounds of column differ at its permuted position", "col " + std::to_string(j) + " type " + T_NAME[c.t[j]] + " pos " +
           std::to_string(vperm[j]) + " got [" + fmtd(v.lb()) + "," + fmtd(v.ub()) + "] perm " + vecs(vperm));
    bool gi = v.type() == mp::var::INTEGER;
    if (gi != (D.type[j] != 0))
      VIOL(std::string("readback integrality differs at permuted position (caller: ") + (D.type[j] ? "integer" : "continuous") + ", " + hclass(D) + ")",
           "col " + std::to_string(j) + " type " + T_NAME[c.t[j]] + " pos " + std::to_string(vperm[j]) + " perm " + vecs(vperm));
    if (D.type[j]) any_int = true;
  }
  // objective
  {
    auto o = p.obj(0);
    if ((o.type() == mp::obj::MAX) != (c.sense == 1)) VIOL("readback objective sense differs", std::to_string((int)o.type()));
    if (h.ok && h.nzG != o.linear_expr().num_terms()) VIOL("header gradient nonzeros != G entries", std::to_string(h.nzG));
    int npts = 1; for (int j = 0; j < n; ++j) npts *= 3;
    static const double PV[3] = {-1, 0, 2};
    bool bad = false, sym_differs = false; std::string what; const char* part = "";
    try {
      for (int k = 0; k < npts && !bad; ++k) {
        double x[3], xp[3] = {0, 0, 0}; int kk = k;
        for (int j = 0; j < n; ++j) { x[j] = PV[kk % 3]; kk /= 3; xp[vperm[j]] = x[j]; }
        double got = 0;
        for (auto& t : o.linear_expr()) got += t.coef() * xp[t.var_index()];
        if (o.nonlinear_expr()) got += eval(o.nonlinear_expr(), xp);
        double want = D.ref_obj(x) + (g_corrupt == 2 ? 1 : 0);
        stat("objective_points");
        if (D.ref_obj(x, true) != D.ref_obj(x)) sym_differs = true;
        if (got != want) {
          bad = true;
          bool origin = true; for (int j = 0; j < n; ++j) if (x[j] != 0) origin = false;
          part = origin ? "offset" : D.H.empty() ? "linear part" : "with Hessian";
          what = "x=" + vecd(std::vector<double>(x, x + n)) + " got " + fmtd(got) + " want " + fmtd(want) + " perm " + vecs(vperm);
        }
      }
      if (bad) VIOL(std::string("readback objective value differs from c0+c.x+0.5x'Qx (") + part + ")", what);
      if (c.hf == 1 && !D.H.empty())
        L.classes.insert(std::string("triangular-format:symmetric-reading:") + (sym_differs ? "differs-from-written" : "same"));
    } catch (const Unsupported& u) { VIOL("readback objective has unexpected expression kind", u.kind); }
    if (o.nonlinear_expr()) {
      std::set<int> vs; collect_vars(o.nonlinear_expr(), vs);
      std::set<int> want; for (int j : D.nlvars) want.insert(vperm[j]);
      if (vs != want) VIOL("readback nonlinear objective mentions other variables than the Hessian", "");
    }
    if (any_int && any_h && rb.strict_ok) stat("miqp_readback_ok");
  }
  // rows
  for (int r = 0; r < m; ++r) {
    auto con = p.algebraic_con(r); stat("row_checks");
    if (con.lb() != D.rlb[r] || con.ub() != D.rub[r])
      VIOL(std::string("readback row range differs (kind ") + RK_NAME[c.rk[r]] + ")", "row " + std::to_string(r) + " got [" + fmtd(con.lb()) + "," + fmtd(con.ub()) + "]");
    double got[3] = {0, 0, 0}, want[3] = {0, 0, 0}; int cnt = 0, wcnt = 0;
    for (auto& t : con.linear_expr()) { if (t.var_index() >= 0 && t.var_index() < n) got[t.var_index()] += t.coef(); ++cnt; }
    for (int j = 0; j < n; ++j) if (c.am >> (r * n + j) & 1) { want[vperm[j]] = AV[r][j]; ++wcnt; }
    bool ok = cnt == wcnt; for (int q = 0; q < n; ++q) if (got[q] != want[q]) ok = false;
    if (!ok) VIOL("readback row coefficients differ (through the permutation)", "row " + std::to_string(r) + " got " + vecd({got[0], got[1], got[2]}) + " want " + vecd({want[0], want[1], want[2]}) + " perm " + vecs(vperm));
    if (con.nonlinear_expr()) VIOL("readback row has a nonlinear part", "");
  }
  // warm starts
  {
    auto iv = p.InitialValues(); auto ivs = p.InitialValuesSparsity(); bool ok = true; std::string got;
    for (int j = 0; j < n; ++j) {
      int pos = vperm[j]; bool set = pos < (int)ivs.size() && ivs[pos];
      double val = pos < (int)iv.size() ? iv[pos] : 0;
      bool want = c.ws >> j & 1;
      if (set != want || (want && val != WSV[j])) ok = false;
      if (g_want_detail) got += (set ? fmtd(val) : std::string("-")) + " ";
    }
    stat("warmstart_checks");
    if (!ok) VIOL("readback initial values do not follow their columns", "ws=" + std::to_string(c.ws) + " got(by caller col) " + got + " perm " + vecs(vperm));
    auto dv = p.InitialDualValues(); auto dvs = p.InitialDualValuesSparsity(); ok = true; got.clear();
    for (int r = 0; r < m; ++r) {
      bool set = r < (int)dvs.size() && dvs[r]; double val = r < (int)dv.size() ? dv[r] : 0;
      bool want = c.dws >> r & 1;
      if (set != want || (want && val != DWSV[r])) ok = false;
      if (g_want_detail) got += (set ? fmtd(val) : std::string("-")) + " ";
    }
    if ((int)dvs.size() > m) ok = false;
    if (!ok) VIOL("readback initial dual values differ", "dws=" + std::to_string(c.dws) + " got " + got);
  }
  // suffixes
  {
    static const char* KN[4] = {"var", "con", "obj", "problem"};
    int expected_count[4] = {0, 0, 0, 0};
    for (int k = 0; k < 8; ++k) {
      if (!(c.sf >> k & 1)) continue;
      const auto& vals = D.sufv[k]; int nnz = 0; for (double v : vals) if (v != 0) ++nnz;
      auto kind = (mp::suf::Kind)(k & 3);
      mp::Suffix s = p.suffixes(kind).Find(SUFNAME[k]);
      stat("suffix_checks");
      std::string kd = std::string(KN[k & 3]) + "," + (k & 4 ? "real" : "int");
      if (nnz == 0) { if (s) ++expected_count[k & 3]; continue; }   // all-zero suffix may be omitted
      ++expected_count[k & 3];
      if (!s) { VIOL("readback suffix missing (" + kd + ")", SUFNAME[k]); continue; }
      bool isreal = (s.kind() & mp::suf::FLOAT) != 0;
      if (isreal != ((k & 4) != 0)) { VIOL("readback suffix int/real flag differs (" + kd + ")", SUFNAME[k]); continue; }
      bool ok = s.num_values() >= (int)vals.size(); std::string got;
      for (int i = 0; ok && i < (int)vals.size(); ++i) {
        int pos = (k & 3) == 0 ? vperm[i] : i;
        double g = isreal ? mp::Cast<mp::DoubleSuffix>(s).value(pos) : (double)mp::Cast<mp::IntSuffix>(s).value(pos);
        if (g_want_detail) got += fmtd(g) + " ";
        if (g != vals[i]) ok = false;
      }
      if (!ok) VIOL("readback suffix values do not follow their items (" + kd + ")", std::string(SUFNAME[k]) + " got(by caller index) " + got + " want " + vecd(vals) + " perm " + vecs(vperm));
    }
    for (int kk = 0; kk < 4; ++kk) {
      int cnt = 0; for (auto it = p.suffixes((mp::suf::Kind)kk).begin(); it != p.suffixes((mp::suf::Kind)kk).end(); ++it) ++cnt;
      if (cnt != expected_count[kk]) VIOL(std::string("readback has unexpected suffixes (") + KN[kk] + ")", std::to_string(cnt));
    }
  }
  return rb;
}

// ------------------------------------------------------------------------------------ reference .sol writer (text)
struct SolPattern { bool options, primal, dual; unsigned sufmask; int code; const char* name; };
static const SolPattern PATTERNS[] = {
  {true, true, true, 0xff, 0, "opt+primal+dual+allsuf"},
  {true, true, false, 0x11, 101, "opt+primal+varsuf"},
  {true, false, true, 0x22, 202, "opt+dual+consuf"},
  {true, false, false, 0, 503, "opt+none"},
  {false, true, true, 0, 4, "noopt+primal+dual"},
};
static const int NPATTERNS = 5;

static std::string make_sol(const Data& D, const SolPattern& sp, const std::vector<int>& vperm) {
  int n = D.c.n, m = D.c.m; std::string s = "C08 reference solution\n\n";
  int nd = sp.dual ? m : 0, np = sp.primal ? n : 0;
  if (sp.options) s += "Options\n3\n0\n1\n0\n" + std::to_string(m) + "\n" + std::to_string(nd) + "\n" + std::to_string(n) + "\n" + std::to_string(np) + "\n";
  for (int r = 0; r < nd; ++r) s += fmtd(YV[r]) + "\n";
  std::vector<double> xs(n, 0.0);
  for (int j = 0; j < n; ++j) xs[vperm[j]] = XV[j];       // solver sees NL order
  for (int q = 0; q < np; ++q) s += fmtd(xs[q]) + "\n";
  s += "objno 0 " + std::to_string(sp.code) + "\n";
  for (int k = 0; k < 8; ++k) if (sp.sufmask >> k & 1) {
    auto vals = D.sol_suffix(k); std::string body; int nnz = 0;
    std::vector<std::pair<int, double>> ent;
    for (int i = 0; i < (int)vals.size(); ++i) if (vals[i] != 0) ent.push_back({(k & 3) == 0 ? vperm[i] : i, vals[i]});
    std::sort(ent.begin(), ent.end());
    for (auto& e : ent) { body += std::to_string(e.first) + " " + fmtd(e.second) + "\n"; ++nnz; }
    s += "suffix " + std::to_string(k) + " " + std::to_string(nnz) + " " + std::to_string(std::strlen(SSUFNAME[k]) + 1) + " 0 0\n" + SSUFNAME[k] + "\n" + body;
  }
  return s;
}

static void check_solution(const Data& D, const SolPattern& sp, const mp::NLSolution& sol, const std::string& err,
                           const std::vector<int>& vperm, bool nonident) {
  int n = D.c.n, m = D.c.m; std::string pn = sp.name;
  stat("sol_reads");
  if (nonident) stat("sol_reads_nonidentity_perm");
  if (!sol || !err.empty()) { VIOL("ReadSolution failed on a well-formed .sol (" + pn + ")", normalize_msg(err)); return; }
  if (sol.solve_result_ != sp.code) VIOL("solve result code differs (" + pn + ")", std::to_string(sol.solve_result_));
  if (sp.primal) {
    bool ok = (int)sol.x_.size() == n; for (int j = 0; ok && j < n; ++j) ok = sol.x_[j] == XV[j];
    if (!ok) VIOL("solution x not in the caller's original order", "got " + vecd(sol.x_) + " want " + vecd(std::vector<double>(XV, XV + n)) + " perm " + vecs(vperm));
  } else L.classes.insert(std::string("sol:no-primal:x_size=") + (sol.x_.empty() ? "0" : "n"));
  if (sp.dual) {
    bool ok = (int)sol.y_.size() == m; for (int r = 0; ok && r < m; ++r) ok = sol.y_[r] == YV[r];
    if (!ok) VIOL("solution duals differ", "got " + vecd(sol.y_));
  }
  static const char* KN[4] = {"var", "con", "obj", "problem"};
  int nexp = 0;
  for (int k = 0; k < 8; ++k) if (sp.sufmask >> k & 1) {
    ++nexp;
    auto vals = D.sol_suffix(k); std::string kd = std::string(KN[k & 3]) + "," + (k & 4 ? "real" : "int");
    const mp::NLSuffix* s = sol.suffixes_.Find(SSUFNAME[k], k);
    stat("sol_suffix_checks");
    if (!s) { VIOL("solution suffix missing (" + kd + ")", SSUFNAME[k]); continue; }
    if ((s->kind_ & 4) != (k & 4) || (s->kind_ & 3) != (k & 3)) VIOL("solution suffix kind differs (" + kd + ")", std::to_string(s->kind_));
    if (s->values_ != vals) VIOL("solution suffix not un-permuted to caller order (" + kd + ")", "got " + vecd(s->values_) + " want " + vecd(vals) + " perm " + vecs(vperm));
  }
  if ((int)sol.suffixes_.size() != nexp) VIOL("solution has unexpected number of suffixes (" + pn + ")", std::to_string(sol.suffixes_.size()));
}

// ------------------------------------------------------------------------------------ one case
static void build_model(mp::NLModel& mdl, const Data& D) {
  const Case& c = D.c;
  mdl.SetCols({c.n, D.lb.data(), D.ub.data(), (c.tn && D.allcont) ? nullptr : D.type.data()});
  if (c.nm) mdl.SetColNames(D.cnames.data());
  if (c.m) {
    mdl.SetRows(c.m, D.rlb.data(), D.rub.data(), {c.m, NLW2_MatrixFormatRowwise, D.aindex.size(), D.astart.data(), D.aindex.data(), D.avalue.data()});
    if (c.nm) mdl.SetRowNames(D.rnames.data());
  }
  if (c.cs < 0) mdl.SetLinearObjective(c.sense ? NLW2_ObjSenseMaximize : NLW2_ObjSenseMinimize, OFFV[c.off]);
  else mdl.SetLinearObjective(c.sense ? NLW2_ObjSenseMaximize : NLW2_ObjSenseMinimize, OFFV[c.off], D.cvec.data());
  if (c.hm || c.hf == 1)
    mdl.SetHessian((NLW2_HessianFormat)c.hf, {c.n, NLW2_MatrixFormatIrrelevant, D.qindex.size(), D.qstart.data(), D.qindex.data(), D.qvalue.data()});
  if (c.nm) mdl.SetObjName(OBJNAME);
  if (!D.wsi.empty()) mdl.SetWarmstart({(int)D.wsi.size(), D.wsi.data(), D.wsv.data()});
  if (!D.dwi.empty()) mdl.SetDualWarmstart({(int)D.dwi.size(), D.dwi.data(), D.dwv.data()});
  for (int k = 0; k < 8; ++k) if (c.sf >> k & 1) mdl.AddSuffix(mp::NLSuffix(SUFNAME[k], k, D.sufv[k]));
}

static void clean_stub(const std::string& stub) {
  for (const char* e : {".nl", ".col", ".row", ".sol"}) ::unlink((stub + e).c_str());
}

static void run_case(const Case& c) {
  g_case = &c; g_tag.clear(); g_case_sigs.clear();
  stage(ST_BUILD);
  Data D(c);
  const std::string stub = g_dir + "/m", stubc = g_dir + "/mc";
  if (!c.nm) { spit(stub + ".col", "stale\n"); spit(stub + ".row", "stale\n"); }
  if (!c.nm && c.capi) { spit(stubc + ".col", "stale\n"); spit(stubc + ".row", "stale\n"); }
  stat("models");
  { static const char* MN[4] = {"", "models_n1", "models_n2", "models_n3"}; stat(MN[c.n]); }
  mp::NLModel mdl(PROBNAME);
  build_model(mdl, D);
  auto opts = NLW2_MakeNLOptionsBasic_C_Default();
  opts.n_text_mode_ = c.fmt != 0; opts.want_nl_comments_ = c.fmt == 2;
  mp::NLSolver nls; nls.SetFileStub(stub); nls.SetNLOptions(opts);
  stage(ST_LOAD);
  const mp::NLModel& cmdl = mdl;   // a non-const lvalue would select the NLFeeder template overload
  bool ok = nls.LoadModel(cmdl);
  stage(ST_ORACLE);
  if (!ok) { VIOL("LoadModel failed", normalize_msg(nls.GetErrorMessage())); return; }
  std::vector<int> vperm = nls.pd_.vperm_, vinv = nls.pd_.vperm_inv_;
  bool pok = valid_perm(vperm, vinv, c.n), nonident = false;
  for (int j = 0; pok && j < c.n; ++j) if (vperm[j] != j) nonident = true;
  ReadBack rb = check_written(stub, D, vperm, vinv);
  // observation class: (kinds of columns, hessian class, readback outcome)
  {
    std::set<std::string> ts; for (int j = 0; j < c.n; ++j) ts.insert(T_NAME[c.t[j]]);
    bool anyint = false; for (int j = 0; j < c.n; ++j) if (D.type[j]) anyint = true;
    std::string k = std::string(anyint ? (D.H.empty() ? "MILP" : "MIQP") : (D.H.empty() ? "LP" : "QP"));
    L.classes.insert(k + ":" + nnzclass(D) + ":" + (nonident ? "permuted" : "identity") + ":readback=" + (rb.strict_ok ? "ok" : rb.lenient_ok ? "lenient" : "rejected") +
                     ":fmt" + std::to_string(c.fmt));
  }
  if (!pok) return;
  // ---- solutions
  mp::NLSolution keep; std::string keep_sol; std::vector<std::vector<double>> returned_x;
  for (int pi = 0; pi < NPATTERNS; ++pi) {
    const SolPattern& sp = PATTERNS[pi];
    stage(ST_SOLWRITE);
    std::string body = make_sol(D, sp, vperm);
    spit(stub + ".sol", body);
    stage(ST_READSOL);
    nls.err_msg_.clear();
    mp::NLSolution sol = nls.ReadSolution();
    stage(ST_ORACLE);
    check_solution(D, sp, sol, nls.GetErrorMessage(), vperm, nonident);
    if (sol && sp.primal && (int)sol.x_.size() == c.n) returned_x.push_back(sol.x_);
    if (pi == 0) { keep = sol; keep_sol = body; }
  }
  // ---- NLSolver::Solve(model, solver, opts) with a solver command that does nothing: the .sol is already there
  if (c.solve) {
    spit(stub + ".sol", keep_sol);
    mp::NLSolver nls2; nls2.SetFileStub(stub); nls2.SetNLOptions(opts);
    stage(ST_SOLVE);
    mp::NLSolution sol = nls2.Solve(mdl, "true", "");
    stage(ST_ORACLE);
    stat("solve_path_runs");
    if (!sol) VIOL("Solve(model, solver) returned no solution", normalize_msg(nls2.GetErrorMessage()));
    else {
      bool xok = (int)sol.x_.size() == c.n; for (int j = 0; xok && j < c.n; ++j) xok = sol.x_[j] == XV[j];
      if (!xok) VIOL("Solve(): solution x not in the caller's original order", vecd(sol.x_));
      if (sol.obj_val_ != D.ref_obj(XV)) VIOL("Solve(): obj_val_ != reference formula at x", "got " + fmtd(sol.obj_val_) + " want " + fmtd(D.ref_obj(XV)));
    }
  }
  // ---- C API
  if (c.capi) {
    g_tag = "[C API] ";
    stat("capi_models");
    NLW2_NLModel_C cm = NLW2_MakeNLModel_C(PROBNAME);
    NLW2_SetCols_C(&cm, c.n, D.lb.data(), D.ub.data(), (c.tn && D.allcont) ? nullptr : D.type.data());
    if (c.nm) NLW2_SetColNames_C(&cm, D.cnames.data());
    if (c.m) NLW2_SetRows_C(&cm, c.m, D.rlb.data(), D.rub.data(), NLW2_MatrixFormatRowwise, D.aindex.size(), D.astart.data(), D.aindex.data(), D.avalue.data());
    if (c.nm && c.m) NLW2_SetRowNames_C(&cm, D.rnames.data());
    NLW2_SetLinearObjective_C(&cm, c.sense ? NLW2_ObjSenseMaximize : NLW2_ObjSenseMinimize, OFFV[c.off], c.cs < 0 ? nullptr : D.cvec.data());
    if (c.hm || c.hf == 1) NLW2_SetHessian_C(&cm, (NLW2_HessianFormat)c.hf, c.n, D.qindex.size(), D.qstart.data(), D.qindex.data(), D.qvalue.data());
    if (c.nm) NLW2_SetObjName_C(&cm, OBJNAME);
    if (!D.wsi.empty()) NLW2_SetWarmstart_C(&cm, {(int)D.wsi.size(), D.wsi.data(), D.wsv.data()});
    if (!D.dwi.empty()) NLW2_SetDualWarmstart_C(&cm, {(int)D.dwi.size(), D.dwi.data(), D.dwv.data()});
    for (int k = 0; k < 8; ++k) if (c.sf >> k & 1) {
      NLW2_NLSuffix_C s; s.name_ = SUFNAME[k]; s.table_ = ""; s.kind_ = k; s.numval_ = (int)D.sufv[k].size(); s.values_ = D.sufv[k].data();
      NLW2_AddSuffix_C(&cm, s);
    }
    NLW2_NLSolver_C cs = NLW2_MakeNLSolver_C(nullptr);
    NLW2_SetFileStub_C(&cs, stubc.c_str()); NLW2_SetNLOptions_C(&cs, opts);
    stage(ST_CAPI_LOAD);
    int lok = NLW2_LoadNLModel_C(&cs, &cm);
    stage(ST_ORACLE);
    if (!lok) VIOL("NLW2_LoadNLModel_C failed", normalize_msg(NLW2_GetErrorMessage_C(&cs)));
    else {
      bool identical = true;
      for (const char* e : {".nl", ".col", ".row"}) {
        std::string a, b; bool ha = slurp(stub + e, a), hb = slurp(stubc + e, b);
        stat("capi_file_compares");
        if (ha != hb || a != b) { identical = false; VIOL(std::string("files not byte-identical to the C++ API (") + e + ")", ha != hb ? "existence differs" : "content differs"); }
      }
      auto* impl = (mp::NLSolver*)cs.p_nlsol_;
      std::vector<int> vp2 = impl->pd_.vperm_, vi2 = impl->pd_.vperm_inv_;
      if (vp2 != vperm) VIOL("permutation differs from the C++ API", vecs(vp2));
      if (!identical) check_written(stubc, D, vp2, vi2);   // say what is semantically wrong with the C-written files
      if (valid_perm(vp2, vi2, c.n)) {
        spit(stubc + ".sol", keep_sol);
        stage(ST_CAPI_READSOL);
        NLW2_NLSolution_C s = NLW2_ReadSolution_C(&cs);
        stage(ST_ORACLE);
        stat("capi_sol_reads");
        bool same = s.solve_result_ == keep.solve_result_ && s.n_primal_values_ == (int)keep.x_.size() && s.n_dual_values_ == (int)keep.y_.size() &&
                    s.nsuf_ == (int)keep.suffixes_.size();
        for (int j = 0; same && j < s.n_primal_values_; ++j) same = s.x_[j] == keep.x_[j];
        for (int r = 0; same && r < s.n_dual_values_; ++r) same = s.y_[r] == keep.y_[r];
        if (same) { int i = 0; for (const auto& sf : keep.suffixes_) { const auto& q = s.suffixes_[i++];
          if (sf.name_ != q.name_ || sf.kind_ != q.kind_ || (int)sf.values_.size() != q.numval_ || !std::equal(sf.values_.begin(), sf.values_.end(), q.values_)) same = false; } }
        if (!same) VIOL("solution differs from the C++ API", "code " + std::to_string(s.solve_result_));
        if (s.n_primal_values_ == c.n) {
          stage(ST_CAPI_OBJVAL);
          double ov = NLW2_ComputeObjValue_C(&cm, s.x_);
          stage(ST_ORACLE);
          if (ov != D.ref_obj(s.x_)) VIOL("NLW2_ComputeObjValue_C != reference formula", fmtd(ov));
        }
      }
    }
    NLW2_DestroyNLSolver_C(&cs); NLW2_DestroyNLModel_C(&cm);
    g_tag.clear();
  }
  // NLModel::ComputeObjValue at every point of {-1,0,2}^n (exact zeros, mixed signs) against the reference formula
  {
    int npts = 1; for (int j = 0; j < c.n; ++j) npts *= 3;
    static const double PV3[3] = {-1, 0, 2};
    for (int k = 0; k < npts; ++k) {
      std::vector<double> x(c.n); int kk = k;
      for (int j = 0; j < c.n; ++j) { x[j] = PV3[kk % 3]; kk /= 3; }
      stage(ST_OBJVAL);
      double ov = mdl.ComputeObjValue(x.data());
      stage(ST_ORACLE);
      stat("objval_grid_points");
      if (ov != D.ref_obj(x.data())) { VIOL("ComputeObjValue(x) != c0+c.x+0.5x'Qx on the grid {-1,0,2}^n", "x=" + vecd(x) + " got " + fmtd(ov) + " want " + fmtd(D.ref_obj(x.data()))); break; }
    }
  }
  // objective value recomputed from every returned primal vector (done last: a crash here loses nothing else)
  for (auto& rx : returned_x) {
    stage(ST_OBJVAL);
    double ov = mdl.ComputeObjValue(rx.data());
    stage(ST_ORACLE);
    stat("objval_recomputed");
    double want_at_returned = D.ref_obj(rx.data());
    if (ov != want_at_returned) VIOL("ComputeObjValue(x) != c0+c.x+0.5x'Qx at the returned x", "got " + fmtd(ov) + " want " + fmtd(want_at_returned));
  }
  stage(ST_CLEANUP);
  if (!g_keep) { clean_stub(stub); if (c.capi) clean_stub(stubc); }
}

// ------------------------------------------------------------------------------------ the explored space
typedef std::function<void(const Case&)> Emit;

static std::vector<unsigned> reduced_supports3() {   // quick tier, n=3: all supports with <=2 entries + structured ones
  std::set<unsigned> s;
  s.insert(0);
  for (int a = 0; a < 9; ++a) { s.insert(1u << a); for (int b = a + 1; b < 9; ++b) s.insert(1u << a | 1u << b); }
  unsigned diag = 1u | 1u << 4 | 1u << 8, upper = 1u << 1 | 1u << 2 | 1u << 5, lower = 1u << 3 | 1u << 6 | 1u << 7;
  for (unsigned x : {diag, upper, lower, diag | upper, diag | lower, upper | lower, 511u, 1u << 1 | 1u << 3 | 1u << 4, 1u | 1u << 5 | 1u << 7,
                     1u << 2 | 1u << 6 | 1u << 4, 1u << 3 | 1u << 4 | 1u << 5, 1u << 2 | 1u << 5 | 1u << 8, 7u, 7u << 6})
    s.insert(x);
  return std::vector<unsigned>(s.begin(), s.end());
}
static const unsigned CAPI_SUPPORTS3[8] = {0, 1u << 4, 1u << 1, 1u << 3 | 1u << 1, 1u | 1u << 4 | 1u << 8, 1u << 2 | 1u << 5 | 1u << 1, 511u, 1u << 6 | 1u << 7 | 1u << 8 | 1u};

static unsigned shrink_mask(unsigned m3, int n) {  // restrict a 3x3 support to the leading n x n block
  unsigned r = 0;
  for (int i = 0; i < n; ++i) for (int j = 0; j < n; ++j) if (m3 >> (i * 3 + j) & 1) r |= 1u << (i * n + j);
  return r;
}
static Case rich(int n) {  // default ("choice 0") of every non-core dimension: everything present
  Case c; c.n = n; c.cs = (1 << n) - 1; c.am = (1u << (2 * n)) - 1; c.ws = (1 << n) - 1;
  return c;
}

static void enumerate(bool thorough, const Emit& emit, std::map<std::string, long long>& counts) {
  // --- A. core: column types x Hessian support x declared format (x duplicate entry), jointly
  for (int n = 1; n <= 3; ++n) {
    int nt = 1; for (int j = 0; j < n; ++j) nt *= 6;
    std::vector<unsigned> sup;
    if (n < 3 || thorough) for (unsigned h = 0; h < (1u << (n * n)); ++h) sup.push_back(h);
    else sup = reduced_supports3();
    std::set<unsigned> red; for (unsigned h : reduced_supports3()) red.insert(h);
    for (int tv = 0; tv < nt; ++tv) for (unsigned h : sup) for (int hf = 1; hf <= 2; ++hf) for (int hd = 0; hd <= (h ? 1 : 0); ++hd) {
      if (!thorough && n == 3 && hd && __builtin_popcount(h) > 2) continue;
      if (hd && hf == 1 && n == 3) continue;      // duplicated entry x declared format jointly only for n<=2
      if (hd && n == 3 && __builtin_popcount(h) > 3 && !red.count(h)) continue;   // n=3 duplicates: supports with <=3 entries + structured
      std::vector<int> fmts = {1};
      if (thorough && (n < 3 || red.count(h))) fmts = {1, 0, 2};
      for (int fm : fmts) {
        Case c = rich(n); int q = tv; for (int j = 0; j < n; ++j) { c.t[j] = q % 6; q /= 6; }
        c.hm = h; c.hf = hf; c.hd = hd; c.fmt = fm;
        if (fm != 1 && hd) continue;              // duplicates: text only
        emit(c); counts["core_n" + std::to_string(n)]++;
      }
    }
  }
  // --- B. other dimensions: 1-way and pairwise deviations from the rich default, on base models
  struct Base { int n; int t[3]; unsigned hm; int hf; };
  std::vector<Base> bases = {
    {3, {0, 3, 2}, 0, 2},                          // MILP, permuted
    {3, {3, 0, 2}, 1u << 4 | 1u << 1 | 1u << 3 | 1u, 2},   // MIQP >=3 entries, nonlinear {0,1}
    {3, {2, 3, 0}, 1u << 8, 1},                    // single diagonal entry on the last (continuous) column
    {3, {0, 2, 3}, 1u << 2 | 1u << 6, 2},          // two off-diagonal entries
    {3, {1, 1, 5}, 1u | 1u << 4 | 1u << 8 | 1u << 1, 1},  // QP all continuous
    {2, {3, 0}, 1u << 3 | 1u << 1 | 1u << 2, 2},
    {2, {2, 1}, 0, 2},
    {1, {3}, 1, 2},
    {1, {0}, 0, 2},
  };
  if (thorough) {
    bases.push_back({3, {4, 2, 0}, 511u, 2});
    bases.push_back({3, {0, 0, 3}, 1u << 8 | 1u << 5 | 1u << 7 | 1u << 2, 1});
    bases.push_back({3, {2, 2, 2}, 1u << 1 | 1u << 5 | 1u << 6, 2});
    bases.push_back({3, {3, 4, 5}, 0, 1});
    bases.push_back({2, {0, 3}, 1u, 1});
  }
  for (auto& b : bases) {
    vx::Explorer ex; ex.max_deviations = 2; int n = b.n;
    ex.run_all([&] {
      Case c = rich(n); for (int j = 0; j < n; ++j) c.t[j] = b.t[j];
      c.hm = b.hm; c.hf = b.hf;
      int k = ex.choose((1 << n) + 1, "cs");            // 0: all, 1: nullptr, then the other subsets
      c.cs = k == 0 ? (1 << n) - 1 : k == 1 ? -1 : k - 2;
      c.sense = ex.choose(2, "sense");
      { static const int OFFK[3] = {1, 0, 2}; c.off = OFFK[ex.choose(3, "offset")]; }
      int na = 1 + (1 << n) + (1 << (2 * n));           // (m, support)
      k = ex.choose(na, "A");
      if (k == 0) { c.m = 2; c.am = (1u << (2 * n)) - 1; }
      else if (k == 1) { c.m = 0; c.am = 0; }
      else if (k < 2 + (1 << n)) { c.m = 1; c.am = k - 2; }
      else { c.m = 2; c.am = k - 2 - (1 << n); if (c.am == (1u << (2 * n)) - 1) { c.m = 1; c.am = (1u << n) - 1; } }
      static const int RK0[5] = {3, 0, 1, 2, 4}, RK1[5] = {4, 0, 1, 2, 3};
      if (c.m >= 1) c.rk[0] = RK0[ex.choose(5, "rk0")];
      if (c.m >= 2) c.rk[1] = RK1[ex.choose(5, "rk1")];
      c.ws = ((1 << n) - 1) ^ ex.choose(1 << n, "ws");
      c.dws = c.m ? (((1 << c.m) - 1) ^ ex.choose(1 << c.m, "dws")) : 0;
      if (c.m == 0) c.dws = 0;
      for (int q = 0; q < 8; ++q) if (ex.choose(2, "suf")) c.sf ^= 1u << q;
      c.nm = 1 - ex.choose(2, "names");
      c.tn = ex.choose(2, "typenull");
      static const int FM[3] = {1, 0, 2};
      c.fmt = FM[ex.choose(3, "fmt")];
      emit(c); counts["pairwise"]++;
    });
  }
  // --- C. C API subset: all column-type vectors x 8 Hessian supports (text and binary)
  for (int n = 1; n <= 3; ++n) {
    int nt = 1; for (int j = 0; j < n; ++j) nt *= 6;
    for (int tv = 0; tv < nt; ++tv) {
      std::set<unsigned> sup; for (unsigned h3 : CAPI_SUPPORTS3) sup.insert(shrink_mask(h3, n));
      for (unsigned h : sup) for (int fm = 0; fm <= (thorough ? 2 : 1); ++fm) {
        Case c = rich(n); int q = tv; for (int j = 0; j < n; ++j) { c.t[j] = q % 6; q /= 6; }
        c.hm = h; c.hf = (h & 1) ? 1 : 2; c.fmt = fm; c.capi = 1; c.sf = 0xff;
        emit(c); counts["capi"]++;
      }
      // feature ablations of the C path on one support (which setter is broken?)
      for (int ab = 0; ab < 5; ++ab) {
        Case c = rich(n); int q = tv; for (int j = 0; j < n; ++j) { c.t[j] = q % 6; q /= 6; }
        c.hm = shrink_mask(CAPI_SUPPORTS3[4], n); c.capi = 1; c.sf = 0; c.ws = 0; c.dws = 0; c.nm = 0;
        if (ab == 1) c.ws = (1 << n) - 1; if (ab == 2) c.dws = 3; if (ab == 3) c.sf = 0xff; if (ab == 4) c.nm = 1;
        if (tv % 7 != 0 && n == 3) continue;
        emit(c); counts["capi_ablation"]++;
      }
    }
  }
  // --- D. NLSolver::Solve(model, "true", "") path
  for (int n = 1; n <= 3; ++n) {
    int nt = 1; for (int j = 0; j < n; ++j) nt *= 6;
    for (int tv = 0; tv < nt; ++tv) for (unsigned h3 : {0u, 1u | 1u << 4 | 1u << 8 | 1u << 1, 1u << 5 | 1u << 6 | 1u << 7}) {
      if (!thorough && n == 3 && tv % 3 != 0) continue;
      Case c = rich(n); int q = tv; for (int j = 0; j < n; ++j) { c.t[j] = q % 6; q /= 6; }
      c.hm = shrink_mask(h3, n); c.solve = 1;
      emit(c); counts["solve_path"]++;
    }
  }
}

// ------------------------------------------------------------------------------------ worker / supervisor
static void flush_case(FILE* out, long long seq) {
  static std::set<std::string> sent;
  std::fprintf(out, "B %lld\n", seq);
  for (auto& c : L.classes) if (sent.insert(c).second) std::fprintf(out, "C %s\n", c.c_str());
  for (auto& v : L.viol) std::fprintf(out, "V %s\x1f%s\x1f%s\n", v[0].c_str(), v[1].c_str(), v[2].c_str());
  std::fprintf(out, "E %lld\n", seq);
  std::fflush(out);
  L.clear();
}

static vx::Report R;
static vx::Shard S;

static void absorb_line(const std::string& l) {
  if (l.size() < 2) return;
  if (l[0] == 'S') { size_t sp = l.rfind(' '); R.stats[l.substr(2, sp - 2)] += std::atoll(l.c_str() + sp + 1); }
  else if (l[0] == 'C') R.classes.insert(l.substr(2));
  else if (l[0] == 'V') {
    size_t a = l.find('\x1f'), b = l.find('\x1f', a + 1);
    if (a != std::string::npos && b != std::string::npos) R.violation(l.substr(2, a - 2), l.substr(a + 1, b - a - 1), l.substr(b + 1));
  }
}

static std::string classify_stderr(const std::string& path) {
  std::string s; slurp(path, s);
  size_t p = s.find("ERROR: AddressSanitizer: ");
  if (p != std::string::npos) { size_t e = s.find_first_of(" \n", p + 25); return "ASan " + s.substr(p + 25, e - p - 25); }
  p = s.find("runtime error: ");
  if (p != std::string::npos) {
    size_t e = s.find('\n', p); std::string m = s.substr(p + 15, e - p - 15);
    if (m.find("null pointer") != std::string::npos) return "UBSan null pointer use";
    return "UBSan " + normalize_msg(m);
  }
  p = s.find("terminate called");
  if (p != std::string::npos) return "uncaught exception";
  return "";
}
static std::string stderr_tail(const std::string& path) {
  std::string s; slurp(path, s); if (s.size() > 1500) s = s.substr(0, 1500); return s;
}

int main(int argc, char** argv) {
  S.parse(argc, argv);
  bool thorough = vx::has_flag(argc, argv, "--thorough");
  const char* work = vx::arg_value(argc, argv, "--work", "build/work/C08");
  g_dir = std::string(work) + "/s" + std::to_string(S.i);
  ::mkdir(work, 0777); ::mkdir(g_dir.c_str(), 0777);
  signal(SIGPIPE, SIG_IGN);
  STAT = (StatTab*)mmap(nullptr, sizeof(StatTab), PROT_READ | PROT_WRITE, MAP_SHARED | MAP_ANONYMOUS, -1, 0);
  STAT->n = 0;

  if (const char* one = vx::arg_value(argc, argv, "--one")) {     // replay a single case in-process
    Case c; if (!Case::parse(one, c)) { R.broken("cannot parse case"); R.done(); return 2; }
    g_dir = std::string(work) + "/replay"; ::mkdir(g_dir.c_str(), 0777);
    g_keep = vx::has_flag(argc, argv, "--keep");     // leave the files behind for inspection
    if (vx::has_flag(argc, argv, "--bench")) {      // developer aid: where does the time of a case go?
      g_bench = true; clock_gettime(CLOCK_MONOTONIC, &g_bench_last);
      for (int i = 0; i < 500; ++i) { run_case(c); L.clear(); }
      for (int i = 0; i < 13; ++i) std::fprintf(stderr, "%-32s %.3f ms/case\n", STAGE_NAME[i], g_bench_t[i] * 2);
      g_bench = false;
    }
    run_case(c);
    for (auto& v : L.viol) R.violation(v[0], v[1], v[2]);
    for (int i = 0; i < STAT->n; ++i) R.stats[STAT->name[i]] += STAT->v[i];
    for (auto& cl : L.classes) R.classes.insert(cl);
    R.done(); return 0;
  }

  // start-up self-test of the oracle: a deliberately wrong expectation must be rejected
  if (S.i == 0) {
    Case c = rich(3); c.t[0] = 0; c.t[1] = 3; c.t[2] = 2; c.hm = 1u | 1u << 4 | 1u << 8 | 1u << 1;
    for (int mode = 1; mode <= 2; ++mode) {
      g_sent_sigs.clear(); g_corrupt = mode; run_case(c); g_corrupt = 0; g_sent_sigs.clear();
      bool caught = false;
      for (auto& v : L.viol) {
        if (mode == 1 && (v[0].find("permuted position") != std::string::npos || v[0].find("follow") != std::string::npos)) caught = true;
        if (mode == 2 && v[0].find("objective value differs") != std::string::npos) caught = true;
      }
      if (!caught) R.broken(std::string("oracle self-test: corrupted expectation ") + (mode == 1 ? "(permutation)" : "(objective)") + " was not rejected");
      L.clear();
    }
    STAT->n = 0;                       // the self-test runs are not part of the evidence counters
    R.stats["selftests"] += 2;
  }

  SH = (Shared*)mmap(nullptr, sizeof(Shared), PROT_READ | PROT_WRITE, MAP_SHARED | MAP_ANONYMOUS, -1, 0);
  SH->seq = -1; SH->stage = ST_IDLE;
  std::map<std::string, long long> counts;
  long long resume_after = -1, total = 0; int crashes = 0; const int CRASH_BUDGET = 3000;
  std::string errfile = g_dir + "/worker.stderr";
  bool finished = false;
  int samples = 0;
  while (!finished) {
    int pfd[2]; if (pipe(pfd)) { R.broken("pipe failed"); break; }
    std::fflush(stdout);
    pid_t pid = fork();
    if (pid < 0) { R.broken("fork failed"); break; }
    if (pid == 0) {                                  // ---- worker
      close(pfd[0]);
      int efd = open(errfile.c_str(), O_WRONLY | O_CREAT | O_TRUNC, 0666);
      dup2(efd, 2); dup2(efd, 1);
      FILE* out = fdopen(pfd[1], "w");
      long long seq = 0; std::map<std::string, long long> cn;
      clean_stub(g_dir + "/m"); clean_stub(g_dir + "/mc");
      enumerate(thorough, [&](const Case& c) {
        long long k = seq++;
        if (!S.mine(k) || k <= resume_after) return;
        SH->seq = k; SH->stage = ST_BUILD;
        run_case(c);
        SH->stage = ST_IDLE;
        flush_case(out, k);
      }, cn);
      std::fprintf(out, "T %lld\n", seq);
      for (auto& kv : cn) std::fprintf(out, "N %s %lld\n", kv.first.c_str(), kv.second);
      std::fprintf(out, "F\n");
      std::fflush(out);
      _exit(0);
    }
    close(pfd[1]);
    FILE* in = fdopen(pfd[0], "r");
    char* line = nullptr; size_t cap = 0; ssize_t len;
    std::vector<std::string> pending; bool fin = false;
    while ((len = getline(&line, &cap, in)) > 0) {
      if (line[len - 1] == '\n') line[--len] = 0;
      if (line[0] == 'B') pending.clear();
      else if (line[0] == 'E') { for (auto& l : pending) absorb_line(l); pending.clear(); R.stats["cases"]++; }
      else if (line[0] == 'T') total = std::atoll(line + 2);
      else if (line[0] == 'N') { char nm[64]; long long v; if (std::sscanf(line + 2, "%63s %lld", nm, &v) == 2) counts[nm] = v; }
      else if (line[0] == 'F') fin = true;
      else pending.push_back(line);
    }
    free(line); fclose(in);
    int st = 0; waitpid(pid, &st, 0);
    if (fin && WIFEXITED(st) && WEXITSTATUS(st) == 0) { finished = true; break; }
    // worker died: turn the death into an observation about the case it was working on
    long long k = SH->seq; int stg = SH->stage;
    if (k <= resume_after || stg == ST_IDLE) { R.broken("worker died outside a case: " + stderr_tail(errfile)); break; }
    std::string why = classify_stderr(errfile);
    if (why.empty()) why = WIFSIGNALED(st) ? "signal " + std::to_string(WTERMSIG(st)) : "exit " + std::to_string(WEXITSTATUS(st));
    // find the case again (deterministic enumeration)
    std::string cs; { long long seq = 0; std::map<std::string, long long> cn;
      enumerate(thorough, [&](const Case& c) { if (seq++ == k) cs = c.str(); }, cn); }
    bool harness_stage = stg == ST_BUILD || stg == ST_ORACLE || stg == ST_SOLWRITE || stg == ST_CLEANUP;
    if (harness_stage) { R.broken("harness crashed in stage '" + std::string(STAGE_NAME[stg]) + "' on case " + cs + ": " + stderr_tail(errfile)); break; }
    Case cc; Case::parse(cs.c_str(), cc);
    std::string disc;
    if (stg == ST_OBJVAL || stg == ST_CAPI_OBJVAL || stg == ST_SOLVE) disc = cc.cs < 0 ? " (objective coefficients = nullptr)" : " (coefficients given)";
    if (stg == ST_LOAD || stg == ST_READNL) { Data D(cc); disc = " (" + hclass(D) + ")"; }
    if (stg == ST_CAPI_LOAD) { Data D(cc); disc = (cc.dws >> cc.n) ? " (dual warm start names a row index >= number of columns)" : " (" + hclass(D) + ")"; }
    R.violation("C08 crash in " + std::string(STAGE_NAME[stg]) + ": " + why + disc,
                "{\"case\":\"" + vx::jesc(cs) + "\",\"stderr\":\"" + vx::jesc(stderr_tail(errfile)) + "\"}",
                "{\"case\":\"" + vx::jesc(cs) + "\"}");
    R.stats["worker_crashes"]++; R.stats["cases"]++;
    R.classes.insert("crash:" + std::string(STAGE_NAME[stg]) + ":" + why);
    resume_after = k;
    if (++crashes > CRASH_BUDGET) { R.cap("more than " + std::to_string(CRASH_BUDGET) + " worker crashes in shard " + std::to_string(S.i)); break; }
  }
  for (int i = 0; i < STAT->n; ++i) R.stats[STAT->name[i]] += STAT->v[i];
  if (S.i == 0) {
    R.stats["space_total_cases"] += total;
    for (auto& kv : counts) R.stats["space_" + kv.first] += kv.second;
    // samples of explored inputs
    long long seq = 0; std::map<std::string, long long> cn; long long step = total > 8 ? total / 8 : 1;
    enumerate(thorough, [&](const Case& c) { if (seq++ % step == 0 && samples++ < 8) R.sample_str(c.str()); }, cn);
  }
  ::unlink(errfile.c_str()); ::rmdir(g_dir.c_str());
  R.done();
  return 0;
}
