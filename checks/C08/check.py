"""C08 matrix ("easy") NL API: bounded exhaustive write / read-back / solution round trip.

Every NLModel of the enumerated space is written by the real NLSolver::LoadModel, read back by the
real mp::ReadNLFile into mp::Problem and compared -- through the permutation the writer reports --
with a permutation-free reference model of the caller's data; reference .sol files are then fed to
NLSolver::ReadSolution.  A subset also goes through the C API (NLW2_*)."""
import json, os, shutil, subprocess, sys
import vbuild, vcheck

PID = 'C08'
WORK = os.path.join(vbuild.VERIF, 'build', 'work', 'C08')
ENV = {'ASAN_OPTIONS': 'detect_leaks=0:abort_on_error=0:allocator_may_return_null=1:symbolize=0',
       'UBSAN_OPTIONS': 'print_stacktrace=0'}


def build():
    return vbuild.build_program('c08_easyapi', 'san', ['checks/C08/easyapi_harness.cc'],
                                with_libmp=True, with_nlw2=True)


def main(tier, seed):
    chk = vcheck.Check(PID, tier, 'exploration', seed)
    binary = build()
    shutil.rmtree(WORK, ignore_errors=True)
    os.makedirs(WORK, exist_ok=True)
    args = ['--work', WORK] + (['--thorough'] if tier == 'thorough' else [])
    res = vcheck.run_shards(binary, 16, args, env=ENV, timeout=3000)
    vcheck.absorb(chk, res)
    shutil.rmtree(WORK, ignore_errors=True)
    cov = chk.cov
    chk.cov['evaluations'] = cov.get('cases', 0)
    # every enumerated case must have been judged (or turned into a crash observation)
    if cov.get('cases', 0) != cov.get('space_total_cases', -1):
        chk.broken.append('judged %s cases but the space has %s' % (cov.get('cases'), cov.get('space_total_cases')))
    # vacuity guards
    if cov.get('nonidentity_perm_models', 0) == 0:
        chk.broken.append('no model with a non-identity permutation was verified')
    if cov.get('miqp_readback_ok', 0) == 0:
        chk.broken.append('no MIQP (integer column + Hessian) was read back successfully')
    if cov.get('sol_reads_nonidentity_perm', 0) == 0:
        chk.broken.append('ReadSolution was never exercised with a non-identity permutation')
    if cov.get('capi_models', 0) == 0 or cov.get('solve_path_runs', 0) == 0:
        chk.broken.append('C API subset or Solve() path not exercised')
    if cov.get('selftests', 0) != 2:
        chk.broken.append('oracle self-test did not run')
    vcheck.finalize_classes(chk)
    chk.set('rule',
            'one evaluation = one NLModel written by NLSolver::LoadModel (C++ API; C API for the capi subset), read back '
            'by mp::ReadNLFile into mp::Problem and judged against the caller\'s data through the reported permutation '
            '(bounds, integrality, objective at all 3^n points of {-1,0,2}^n (read back and through NLModel::ComputeObjValue), rows, header class counts, block order, '
            'warm starts, suffixes, .col/.row), followed by 5 reference .sol files (primal/dual presence patterns, all '
            'suffix kinds) through NLSolver::ReadSolution + NLModel::ComputeObjValue. Core space (column-type vector x '
            'Hessian support x declared format [x duplicated entry]) is enumerated jointly; the other dimensions by all '
            '1- and 2-deviations from the all-present default on base models (vx::Explorer, max_deviations=2). '
            'distinct_nontrivial = observation classes (problem class, Hessian nnz class, permuted?, read-back outcome, '
            'format; crash stages; reader rejection messages).')
    chk.set('bounds', {
        'columns': '1..3', 'column_types': ['free', 'cont[0,1]', 'binary', 'int[-2,5]', 'int[0,0]', 'cont[0,0]'],
        'hessian_supports': 'all 2^(n*n) subsets (quick, n=3: 60 supports = all with <=2 entries + 14 structured)',
        'hessian_formats': ['triangular', 'square'], 'duplicate_entry': 'first stored entry doubled (text NL; n<=2: every support x both formats; n=3: square format, '
                           'supports with <=3 entries + 14 structured ones; quick: <=2 entries)',
        'core_nl_format': 'text' if tier == 'quick' else 'text for every core model; binary and text+comments for every core model '
                          'with n<=2 and, for n=3, on the 60 reduced supports',
        'rows': '0..2, every 0/nonzero pattern', 'row_kinds': ['free', '<=', '>=', 'range', '=='],
        'objective_support': 'all subsets + nullptr', 'sense': ['min', 'max'], 'offset': [0, 1.5, -7.5],
        'warm_start': 'all subsets', 'dual_warm_start': 'all subsets',
        'suffixes': 'var/con/obj/problem x int/real, each present/absent', 'names': ['absent', 'present'],
        'nl_format': ['binary', 'text', 'text+comments'], 'pairwise_deviation_bound': 2,
        'sol_patterns': ['options+primal+dual+all suffixes', 'options+primal+var suffixes', 'options+dual+con suffixes',
                         'options, no vectors', 'no options section'],
        'objective_points': '{-1,0,2}^n'})
    chk.assumptions += [
        'Hessian formula: the documented "0.5 @ x.T @ Q @ x" is applied to the STORED sparse matrix for both declared '
        'formats (duplicates add up; an off-diagonal entry counts once). NLW2_HessianFormat is undocumented and the '
        'implementation ignores it; under the reading "triangular = one triangle of a symmetric Q" the written objective '
        'would differ for every triangular Hessian with an off-diagonal entry (observed as class '
        '"triangular-format:symmetric-reading:differs-from-written", not demanded).',
        'the permutation the writer reports is NLSolver::pd_ (private member, read via -fno-access-control); it must be a '
        'bijection whose inverse is vperm_inv_',
        'num_nl_vars_in_objs must equal the number of distinct columns occurring (as row or column index) in a stored '
        'Hessian entry, and these columns must occupy positions [0, nlvo) - the NL "type by position" encoding the '
        'property statement refers to; nlvc/nlvb must be 0',
        'binary = integer column with bounds exactly [0,1]; integer [0,0] is a general integer',
        'an all-zero suffix may be omitted from the NL file; absent names => no .col/.row file may remain next to the .nl '
        '(stale files planted before the write must be removed, as StringFileWriter documents)',
        'when a .sol carries no primal vector nothing is demanded of NLSolution::x_',
        'only text-format .sol files are produced by the reference writer (binary .sol is C14 territory)',
        'objective value "recomputed": NLModel::ComputeObjValue(x_) after ReadSolution (documented way) and obj_val_ of '
        'NLSolver::Solve(model, "true", "") on a subset; exact equality (all data are small dyadic rationals)',
        'LoadModel is called with a const NLModel& (a non-const lvalue selects the NLFeeder template overload and does '
        'not compile when nl-solver.hpp is included)',
    ]
    return chk.finish()


def replay(path):
    """Re-execute the recorded case in-process (no fork isolation): exit 1 iff the recorded signature is
    reproduced (a crash signature is reproduced by the process dying)."""
    rec = json.load(open(path))
    r = rec['replay']
    binary = build()
    os.makedirs(WORK, exist_ok=True)
    e = dict(os.environ)
    e.update({'ASAN_OPTIONS': 'detect_leaks=0:allocator_may_return_null=1', 'UBSAN_OPTIONS': 'print_stacktrace=1'})
    p = subprocess.run([binary, '--work', WORK, '--one', r['case']], capture_output=True, text=True, env=e, errors='replace')
    shutil.rmtree(WORK, ignore_errors=True)
    sigs = [x.get('sig') for x in vcheck.parse_jsonl(p.stdout) if x.get('type') == 'violation']
    print('case: %s' % r['case'])
    print('recorded signature: %s' % rec.get('signature'))
    for s in sigs:
        print('  reproduced: %s' % s)
    if p.returncode != 0 or '"done"' not in p.stdout:
        print('  process died (rc=%s):\n%s' % (p.returncode, p.stderr[-3000:]))
        return 1
    if rec.get('signature') in sigs:
        return 1
    print('  recorded signature NOT reproduced')
    return 0
