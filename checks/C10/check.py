"""C10 solve-result classification: every status code in [-200, 999] x {primal, dual, objective value present/absent}
(x IsMIP in thorough) through the scripted driver (one process per run), the six StdBackend classification
predicates for every code in-process, and the `-!` table.  Oracle = the range table parsed from
doc/source/features-guide.rst at run time."""
import json, multiprocessing, os, re, shutil, subprocess, sys
import vbuild, vcheck, vdriverlib, nlmodel

PID = 'C10'
WORK = os.path.join(vbuild.VERIF, 'build', 'work', PID)
LO, HI = -200, 999
STATEMENT_RANGES = [(0, 99), (100, 199), (200, 299), (300, 349), (350, 399), (400, 449), (450, 469),
                    (470, 499), (500, 999)]
INF = float('inf')
# tiny LP: max x0 + 2 x1  s.t. x0 + x1 <= 5, 0 <= x <= 10; scripted answer x=(0.5,1) is feasible, objective 2.5
X_SPEC, Y_SPEC, OBJ_SPEC, OBJ_TEXT = '0.5,1', '0', '2.5', '2.5'
X_VIOL = '6,6'
PREDICATES = ['IsProblemSolved', 'IsProblemSolvedOrFeasible', 'IsProblemInfeasible', 'IsProblemUnbounded',
              'IsProblemIndiffInfOrUnb', 'IsProblemInfOrUnb']


def model_nl():
    m = nlmodel.Model([(0, 10, False, 1), (0, 10, False, 1)], acons=[(None, {0: 1, 1: 1}, -INF, 5)],
                      obj=('max', None, {0: 1, 1: 2}))
    return m.nl()


def model_nl_int():
    """the same model with an integer second variable: the scripted answer x1 = 0.5 is then a non-integral integer variable"""
    m = nlmodel.Model([(0, 10, False, 1), (0, 10, True, 1)], acons=[(None, {0: 1, 1: 1}, -INF, 5)],
                      obj=('max', None, {0: 1, 1: 2}))
    return m.nl()


ROUND_OF = {5: 7, 6: 2}      # px == 5 / 6: mip:round=7 (round, "modify solve_result", message) / 2 on the integer model


def build():
    jobs = [(os.path.join(vbuild.VERIF, 'checks/C10/c10_harness.cc'), 'plain0', (), '')]
    jobs += [(s, 'plain', (), '') for s in vbuild.LIBMP_SRCS]
    return vbuild.link('c10_vdriver', vbuild.compile_many(jobs), 'plain')


# ------------------------------------------------------------------------------------------- documented table
CATEGORY_RULES = [   # (regex on the documented description, category)
    (r'^solved:', 'solved'), (r'^solved\?', 'uncertain'), (r'^infeasible\b', 'infeasible'),
    (r'^unbounded, feasible solution returned', 'unbounded_feas'),
    (r'^unbounded, no feasible solution returned', 'unbounded_nofeas'),
    (r'^limit, feasible', 'limit_feas'), (r'^limit, problem is either infeasible or unbounded', 'limit_infunb'),
    (r'^limit, no solution returned', 'limit_nofeas'), (r'^failure\b', 'failure')]


def category(desc):
    for rx, cat in CATEGORY_RULES:
        if re.search(rx, desc.strip()):
            return cat
    return None


def parse_table(text):
    """lines '  lo- hi description' (ranges) and '  code description' (single codes)"""
    ranges, singles = [], []
    for line in text.splitlines():
        m = re.match(r'^\s*(\d+)\s*-\s*(\d+)\s+(\S.*?)\s*$', line)
        if m:
            ranges.append((int(m.group(1)), int(m.group(2)), m.group(3))); continue
        m = re.match(r'^\s*(\d+)\s+(\S.*?)\s*$', line)
        if m:
            singles.append((int(m.group(1)), m.group(2)))
    return ranges, singles


def documented_table():
    """-> (ranges [(lo,hi,desc,cat)], singles) parsed from features-guide.rst, or raises ValueError."""
    path = os.path.join(vbuild.REPO, 'doc', 'source', 'features-guide.rst')
    txt = open(path).read()
    i = txt.find('Solve result table for')
    if i < 0:
        raise ValueError('no "Solve result table for" block in ' + path)
    block = txt[i:].split('\n', 1)[1]
    lines = []
    for l in block.splitlines():
        if not l.strip():
            break
        lines.append(l)
    ranges, singles = parse_table('\n'.join(lines))
    out = []
    for lo, hi, desc in ranges:
        cat = category(desc)
        if cat is None:
            raise ValueError('documented range %d-%d has an unrecognised description %r' % (lo, hi, desc))
        out.append((lo, hi, desc, cat))
    if sorted((lo, hi) for lo, hi, _, _ in out) != STATEMENT_RANGES:
        raise ValueError('documented ranges %r differ from the ranges named by the property statement'
                         % sorted((lo, hi) for lo, hi, _, _ in out))
    if sorted(c for _, _, _, c in out) != sorted(c for _, c in CATEGORY_RULES):
        raise ValueError('documented ranges do not cover each category exactly once')
    return out, singles


class Oracle:
    def __init__(self, ranges):
        self.ranges = ranges

    def cat(self, code):
        for lo, hi, _, c in self.ranges:
            if lo <= code <= hi:
                return c
        return 'undocumented'

    def range_of(self, code):
        for lo, hi, _, c in self.ranges:
            if lo <= code <= hi:
                return (lo, hi)
        return None

    def candidate(self, code):
        """solution candidate indicated?  True / False / None (statement leaves 'solved?' 100-199 open)"""
        c = self.cat(code)
        if c in ('solved', 'unbounded_feas', 'limit_feas'):
            return True
        if c == 'uncertain':
            return None
        return False

    def predicate(self, name, code):
        c = self.cat(code)
        if name == 'IsProblemSolved': return c == 'solved'
        if name == 'IsProblemSolvedOrFeasible': return self.candidate(code)
        if name == 'IsProblemInfeasible': return c == 'infeasible'
        if name == 'IsProblemUnbounded': return c in ('unbounded_feas', 'unbounded_nofeas')
        if name == 'IsProblemIndiffInfOrUnb': return c == 'limit_infunb'
        if name == 'IsProblemInfOrUnb': return c in ('infeasible', 'unbounded_feas', 'unbounded_nofeas', 'limit_infunb')
        raise KeyError(name)


# ------------------------------------------------------------------------------------------- one driver run
def script_of(case):
    code, px, py, po, mip = case
    # px == 2: a primal answer that violates the row x0 + x1 <= 5 (used to observe whether the automatic solution check ran)
    # px == 3: a complete feasible answer plus two alternative solutions (written to <sol:stub>N.sol)
    # px == 5, 6: mip:round=7 / 2 with a non-integral value of an integer variable (the rounding step runs between the backend's
    #   report and the .sol file; whatever it does to values and message, the code written is the code the backend reported)
    # px == 7: sol:chk:fail with the violating answer of px == 2: the run ends with the dedicated code 150-159 exactly when the
    #   solution check looks at the answer (every class except "infeasible"), else with the reported code
    # px == 8: alg:kappa=2 ("ignored when there is no optimal basis"): the .kappa suffix is returned exactly for the solved class
    # px == 4: IIS requested (alg:iisfind=1); the scripted IIS run reports the status code+1000 -> folded to IIS_CODE(code)
    return {'code': code, 'msg': 'scripted result', 'altsols': 2 if px == 3 else 0, 'iis_code': iis_code(code) if px == 4 else 'none', 'iis': 'ramp' if px == 4 else 'none', 'x': (X_VIOL if px in (2, 7) else '1,0.5' if px in ROUND_OF else X_SPEC) if px else 'none', 'y': Y_SPEC if py else 'none',
            'obj': OBJ_SPEC if po else 'none', 'ismip': 1 if px in ROUND_OF else mip, 'rays': 1}


def iis_code(code):
    """the status the scripted IIS run reports: another code of the same documented range"""
    for lo, hi in STATEMENT_RANGES:
        if lo <= code <= hi: return code + 1 if code < hi else code - 1
    return code


def observe(binary, workdir, nl, case):
    """-> compact observation dict of one driver run"""
    alt = case[1] == 3
    if alt:
        for f in os.listdir(workdir) if os.path.isdir(workdir) else []:
            if f.startswith('alt'): os.remove(os.path.join(workdir, f))
    r = vdriverlib.run(binary, workdir, nl_text=model_nl_int() if case[1] in ROUND_OF else nl, script=script_of(case),
                       env_opts={'vdriver_options': 'sol:stub=%s' % os.path.join(workdir, 'alt')} if alt else
                       {'vdriver_options': 'alg:iisfind=1'} if case[1] == 4 else
                       {'vdriver_options': 'mip:round=%d' % ROUND_OF[case[1]]} if case[1] in ROUND_OF else
                       {'vdriver_options': 'sol:chk:fail'} if case[1] == 7 else
                       {'vdriver_options': 'alg:kappa=2'} if case[1] == 8 else None)
    if case[1] == 4: o_calls = [c.get('op') for c in (r.get('dump') or {}).get('calls', [])]
    o = {'rc': r['rc'], 'sol': None, 'err': r['err'][-300:]}
    if case[1] == 4: o['iis_run'] = 'ComputeIIS' in o_calls
    if alt:
        codes = []
        for k in (1, 2):
            try: codes.append(vdriverlib.parse_sol(open(os.path.join(workdir, 'alt%d.sol' % k), errors='replace').read())['code'])
            except (OSError, ValueError, IndexError): codes.append(None)
        o['altcodes'] = codes
    if r['sol'] is not None:
        try:
            s = vdriverlib.parse_sol(r['sol'])
            first = s['message'].split('\n')[0]
            m = re.search(r'; (?:feasrelax )?objective (\S+)\s*$', first)
            o.update(sol=True, first=first, objtxt=m.group(1) if m else None,
                     objword='objective' in first, objno=s['objno'], code=s['code'],
                     nprimals=s['nprimals'], nduals=s['nduals'], tolviol='Tolerance violations' in s['message'],
                     unbdd=any(x['name'] == 'unbdd' for x in s['suffixes']), dunbdd=any(x['name'] == 'dunbdd' for x in s['suffixes']),
                     kappa=any(x['name'] == 'kappa' for x in s['suffixes']))
        except (ValueError, IndexError) as e:
            o.update(sol=False, parse_error=str(e), raw=r['sol'][-300:])
    return o


def judge(orc, case, o):
    """-> list of (kind, detail) findings for one run; [] = conforms"""
    code, px, py, po, mip = case
    f = []
    if o['rc'] != 0 or o['sol'] is not True:
        return [('driver failed', {'rc': o['rc'], 'sol': o['sol'], 'err': o.get('err'), 'parse': o.get('parse_error')})]
    want_code = code
    if px == 4 and o.get('iis_run'): want_code = iis_code(code)       # the IIS run reported a new status: that is the code to write
    if px == 7:
        checked = orc.cat(code) != 'infeasible'
        if checked != (150 <= (o['code'] if o['code'] is not None else -1) <= 159) or (not checked and o['code'] != code):
            f.append(('sol:chk:fail code', {'sol_code': o['code'], 'reported': code, 'solution_check_applies': checked}))
        return f
    if o['code'] != want_code:
        f.append(('.sol solve code differs from reported code', {'sol_code': o['code'], 'reported': want_code}))
    if px == 4:
        code = want_code
    cand = orc.candidate(code)
    has = o['objtxt'] is not None or o['objword']
    if cand is True and po:
        if not has:
            f.append(('objective missing in message', {'message': o['first']}))
        elif o['objtxt'] != OBJ_TEXT:
            f.append(('objective value wrong in message', {'message': o['first'], 'expected': OBJ_TEXT}))
    elif cand is False and has:
        f.append(('objective in message', {'message': o['first']}))
    # the automatic solution check (default options) looks at every returned solution except for the codes documented as
    # "infeasible" (sol:chk:infeas=0): a violating answer must be reported, a feasible one must not
    if px == 2:
        expect = orc.cat(code) != 'infeasible'
        if o.get('tolviol') != expect:
            f.append(('solution check ran' if o.get('tolviol') else 'solution check skipped', {'message': o['first']}))
    elif px == 1 and o.get('tolviol'):
        f.append(('solution check reports a feasible answer', {'message': o['first']}))
    if px == 8 and bool(o.get('kappa')) != (orc.cat(code) == 'solved'):
        f.append(('kappa returned' if o.get('kappa') else 'kappa missing', {'message': o['first']}))
    if px == 3 and o.get('altcodes') != [code, code]:
        f.append(('alternative solution code', {'alt_codes': o.get('altcodes')}))
    # rays (alg:rays default 3): .unbdd is documented for "objective unbounded", .dunbdd for "constraints infeasible";
    # the undecided class 450-469 may return either
    cat = orc.cat(code)
    want_u = True if cat in ('unbounded_feas', 'unbounded_nofeas') else None if cat == 'limit_infunb' else False
    want_d = True if cat == 'infeasible' else None if cat == 'limit_infunb' else False
    if want_u is not None and o.get('unbdd') != want_u:
        f.append(('unbounded ray returned' if o.get('unbdd') else 'unbounded ray missing', {'message': o['first']}))
    if want_d is not None and o.get('dunbdd') != want_d:
        f.append(('infeasibility ray returned' if o.get('dunbdd') else 'infeasibility ray missing', {'message': o['first']}))
    return f


def _worker(args):
    binary, idx, nl, cases, ranges = args
    orc = Oracle(ranges)
    wd = os.path.join(WORK, 'w%02d' % idx)
    out = []
    for case in cases:
        o = observe(binary, wd, nl, case)
        out.append((case, o, judge(orc, case, o)))
    return out


# ------------------------------------------------------------------------------------------- reporting helpers
def intervals(codes):
    codes = sorted(set(codes)); out = []
    for c in codes:
        if out and c == out[-1][1] + 1: out[-1][1] = c
        else: out.append([c, c])
    return [tuple(x) for x in out]


def split_by_ranges(orc, codes):
    """maximal runs of consecutive codes, cut at documented range borders -> [(lo, hi, doc_range or None)]"""
    out = []
    by = {}
    for c in codes:
        by.setdefault(orc.range_of(c), []).append(c)
    for rng, cs in sorted(by.items(), key=lambda kv: (kv[0] is None, kv[0] or (0, 0))):
        for lo, hi in intervals(cs):
            out.append((lo, hi, rng))
    return out


def where(lo, hi, rng):
    if rng is None:
        return 'codes %d..%d outside the documented ranges' % (lo, hi) if lo != hi else 'code %d outside the documented ranges' % lo
    if (lo, hi) == rng:
        return 'code range %d-%d' % rng
    if lo == hi:
        return 'code %d of range %d-%d' % (lo, rng[0], rng[1])
    return 'codes %d..%d of range %d-%d' % (lo, hi, rng[0], rng[1])


def run_predicates(binary, lo, hi):
    p = subprocess.run([binary, '--predicates', str(lo), str(hi)], capture_output=True, text=True, cwd=WORK,
                       env={'PATH': '/usr/bin:/bin', 'LC_ALL': 'C'}, timeout=600)
    rows = vcheck.parse_jsonl(p.stdout)
    done = any(r.get('type') == 'done' for r in rows)
    return p.returncode, [r for r in rows if r.get('type') == 'pred'], done, p.stderr[-800:], \
        [r for r in rows if r.get('type') == 'broken']


def run_bang(binary):
    p = subprocess.run([binary, '-!'], capture_output=True, text=True, cwd=WORK,
                       env={'PATH': '/usr/bin:/bin', 'LC_ALL': 'C'}, timeout=60)
    return p.returncode, p.stdout, p.stderr


def judge_bang(ranges, out):
    """-> findings [(sig, detail)] : every documented range must be listed with the same bounds and category"""
    got, _ = parse_table(out)
    f = []
    for lo, hi, desc, cat in ranges:
        hit = [g for g in got if (g[0], g[1]) == (lo, hi)]
        if not hit:
            f.append(('C10 -! table lacks documented range %d-%d' % (lo, hi), {'documented': desc, 'listed': got}))
        elif category(hit[0][2]) != cat:
            f.append(('C10 -! table describes range %d-%d as a different class than documented' % (lo, hi),
                      {'documented': desc, 'listed': hit[0][2]}))
    # order: a code or sub-range is listed under the header of the documented range that contains it (as in the documented
    # table: "400-449 limit, feasible ..." then "402 time limit, feasible solution"), never under the preceding class
    rows = []
    for line in out.splitlines():
        m = re.match(r'^\s*(\d+)\s*-\s*(\d+)\s+(\S.*?)\s*$', line)
        if m: rows.append((int(m.group(1)), int(m.group(2)), m.group(3))); continue
        m = re.match(r'^\s*(\d+)\s+(\S.*?)\s*$', line)
        if m: rows.append((int(m.group(1)), int(m.group(1)), m.group(2)))
    doc = [(lo, hi) for lo, hi, _, _ in ranges]
    cur = None
    for a, b, d in rows:
        if (a, b) in doc: cur = (a, b); continue
        home = [r for r in doc if r[0] <= a and b <= r[1]]
        if home and cur != home[0]:
            f.append(('C10 -! table lists a code of range %d-%d under the header of %s (%s)' % (
                          home[0][0], home[0][1], 'range %d-%d' % cur if cur else 'no range',
                          'the first code of its range' if a == home[0][0] else 'a later code of its range'),
                      {'row': [a, b, d], 'listed_under': cur, 'table': out[-1500:]}))
    return f


def self_test(orc):
    """the oracle must reject deliberately wrong observations"""
    bad = []
    ok_obs = {'rc': 0, 'sol': True, 'first': 'x: scripted result; objective 2.5', 'objtxt': '2.5', 'objword': True,
              'objno': 0, 'code': 50, 'nprimals': 2, 'nduals': 1, 'tolviol': False, 'unbdd': False, 'dunbdd': False}
    if judge(orc, (50, 1, 1, 1, 0), ok_obs): bad.append('conforming run rejected')
    o = dict(ok_obs, first='x: scripted result', objtxt=None, objword=False)
    if not judge(orc, (50, 1, 1, 1, 0), o): bad.append('missing objective accepted for code 50')
    o = dict(ok_obs, code=250)
    if not judge(orc, (250, 1, 1, 1, 0), o): bad.append('objective accepted for code 250')
    o = dict(ok_obs, unbdd=True)
    if not judge(orc, (50, 1, 1, 1, 0), o): bad.append('unbounded ray accepted for code 50')
    o = dict(ok_obs, code=51)
    if not judge(orc, (50, 1, 1, 1, 0), o): bad.append('wrong .sol code accepted')
    if orc.predicate('IsProblemInfeasible', 299) is not True or orc.predicate('IsProblemInfeasible', 300) is not False:
        bad.append('reference IsProblemInfeasible wrong at 299/300')
    if orc.predicate('IsProblemSolvedOrFeasible', 449) is not True or orc.predicate('IsProblemSolvedOrFeasible', 450) is not False:
        bad.append('reference IsProblemSolvedOrFeasible wrong at 449/450')
    if not judge_bang(orc.ranges, '\t  0- 99\tsolved: x\n'): bad.append('-! judge accepts a table with one range')
    if not any('under the header' in g[0] for g in judge_bang(orc.ranges, '\t350-399\tunbounded, no feasible solution\n\t400\tlimit x\n\t400-449\tlimit, feasible: y\n')):
        bad.append('-! judge accepts a code listed before the header of its range')
    return bad


# ------------------------------------------------------------------------------------------- main
def main(tier, seed):
    chk = vcheck.Check(PID, tier, 'exploration', seed)
    binary = build()
    shutil.rmtree(WORK, ignore_errors=True)
    os.makedirs(WORK, exist_ok=True)
    try:
        return _main(chk, tier, binary)
    finally:
        shutil.rmtree(WORK, ignore_errors=True)


def _main(chk, tier, binary):
    try:
        ranges, singles = documented_table()
    except (ValueError, OSError) as e:
        chk.broken.append('documented solve-result table cannot be parsed: %s' % e)
        return chk.finish()
    orc = Oracle(ranges)
    for b in self_test(orc):
        chk.broken.append('oracle self-test: ' + b)
    nl = model_nl()
    mips = [0, 1] if tier == 'thorough' else [0]
    cases = [(code, px, py, po, mip) for mip in mips for code in range(LO, HI + 1)
             for px in (1, 0) for py in (1, 0) for po in (1, 0)]
    cases += [(code, 2, 1, 1, mip) for mip in mips for code in range(LO, HI + 1)]
    cases += [(code, 3, 1, 1, mip) for mip in mips for code in range(LO, HI + 1)]
    cases += [(code, 4, 1, 1, mip) for mip in mips for code in range(LO, HI + 1)]
    cases += [(code, px, 1, 1, 1) for px in sorted(ROUND_OF) for code in range(LO, HI + 1)]
    cases += [(code, 7, 1, 1, mip) for mip in mips for code in range(LO, HI + 1)]
    cases += [(code, 8, 1, 1, mip) for mip in mips for code in range(LO, HI + 1)]
    nw = vcheck.NCPU
    jobs = [(binary, i, nl, cases[i::nw], ranges) for i in range(nw)]
    with multiprocessing.get_context('fork').Pool(nw) as pool:
        results = [r for part in pool.map(_worker, jobs) for r in part]
    results.sort(key=lambda t: t[0])

    classes = chk.cov.setdefault('_classes', set())
    fails = {}            # kind -> {code: [(case, detail)]}
    per_range = {}
    n_obj_in_msg = 0
    for case, o, f in results:
        code, px, py, po, mip = case
        chk.add('driver_runs')
        rng = orc.range_of(code)
        per_range[rng] = per_range.get(rng, 0) + 1
        if o.get('sol') is True:
            if o['objtxt'] is not None: n_obj_in_msg += 1
            classes.add('%s x=%d y=%d obj=%d mip=%d -> objective_in_message=%s primals=%d duals=%d code_echoed=%s objno=%s'
                        % (orc.cat(code), px, py, po, mip, o['objtxt'] if o['objtxt'] is not None else ('word' if o['objword'] else 'no'),
                           o['nprimals'], o['nduals'], o['code'] == code, o['objno']))
        else:
            classes.add('%s driver failed rc=%s' % (orc.cat(code), o['rc']))
        for kind, detail in f:
            fails.setdefault(kind, {}).setdefault(code, []).append((case, detail))
        if code in (0, 150, 299, 300, 402, 460, 550, -1) and (px, py, po, mip) == (1, 1, 1, 0):
            chk.sample({'script': script_of(case), 'first_message_line': o.get('first'), 'sol_code': o.get('code'),
                        'objno': o.get('objno')}, cap=10)
    chk.set('runs_with_objective_in_message', n_obj_in_msg)
    chk.set('driver_runs_per_documented_range', {('%d-%d' % r) if r else 'undocumented': n for r, n in
                                                 sorted(per_range.items(), key=lambda kv: (kv[0] is None, kv[0] or (0, 0)))})
    SIG = {'objective missing in message': 'C10 objective missing in message for %s',
           'objective value wrong in message': 'C10 objective value in message differs from the reported value for %s',
           'objective in message': 'C10 objective in message although no solution candidate is indicated for %s',
           '.sol solve code differs from reported code': 'C10 .sol solve code differs from the reported code for %s',
           'driver failed': 'C10 driver failed (non-zero exit or no readable .sol) for %s',
           'unbounded ray returned': 'C10 .unbdd ray returned for a code outside the unbounded / undecided classes: %s',
           'unbounded ray missing': 'C10 .unbdd ray not returned for the unbounded class: %s',
           'infeasibility ray returned': 'C10 .dunbdd ray returned for a code outside the infeasible / undecided classes: %s',
           'infeasibility ray missing': 'C10 .dunbdd ray not returned for the infeasible class: %s',
           'alternative solution code': 'C10 alternative-solution .sol files (sol:stub) do not carry the reported code for %s',
           'sol:chk:fail code': 'C10 sol:chk:fail with a violating answer: the .sol code is not 150-159 where the solution check applies / not the reported code where it does not, for %s',
           'kappa returned': 'C10 .kappa suffix returned (alg:kappa=2) for a code outside the solved class: %s',
           'kappa missing': 'C10 .kappa suffix not returned (alg:kappa=2) for the solved class: %s',
           'solution check skipped': 'C10 violating answer not reported by the solution check (treated as infeasible class) for %s',
           'solution check ran': 'C10 solution check ran on an answer of the infeasible class (sol:chk:infeas=0) for %s',
           'solution check reports a feasible answer': 'C10 solution check reports a feasible answer for %s'}
    for kind, bycode in sorted(fails.items()):
        for lo, hi, rng in split_by_ranges(orc, bycode.keys()):
            cs = [c for c in bycode if lo <= c <= hi]
            case0, det0 = max(bycode[min(cs)], key=lambda cd: cd[0][1:4])    # most complete answer first
            pats = sorted(set((c[1], c[2], c[3], c[4]) for k in cs for c, _ in bycode[k]))
            chk.violation(SIG[kind] % where(lo, hi, rng),
                          {'failing_codes': [lo, hi], 'failing (x,y,obj,mip) presence patterns': pats,
                           'first': {'script': script_of(case0), 'observed': det0},
                           'documented': [r[:3] for r in ranges if (r[0], r[1]) == rng]},
                          {'kind': 'driver', 'case': list(case0)})

    # ---- named constants of mp::sol::Status: each lies in the documented range its name says (drivers report through the names)
    NAME_CAT = [('MP_SOLUTION_CHECK', 'uncertain'), ('SOLVED', 'solved'), ('UNCERTAIN', 'uncertain'), ('INFEASIBLE', 'infeasible'),
                ('UNBOUNDED_NO_FEAS', 'unbounded_nofeas'), ('UNBOUNDED_FEAS', 'unbounded_feas'), ('UNBOUNDED', 'unbounded_feas'),
                ('LIMIT_NO_FEAS', 'limit_nofeas'), ('LIMIT_INF_UNB', 'limit_infunb'), ('INF_OR_UNB', 'limit_infunb'),
                ('LIMIT_FEAS', 'limit_feas'), ('LIMIT', 'limit_feas'), ('FAILURE', 'failure'), ('NUMERIC', 'failure'),
                ('SPECIFIC', 'failure'), ('INTERRUPTED', 'failure')]
    pn = subprocess.run([binary, '--names'], capture_output=True, text=True, cwd=WORK, env={'PATH': '/usr/bin:/bin', 'LC_ALL': 'C'}, timeout=60)
    nrows = [r for r in vcheck.parse_jsonl(pn.stdout) if r.get('type') == 'name']
    if pn.returncode != 0 or len(nrows) < 50: chk.broken.append('names harness incomplete rc=%s rows=%d' % (pn.returncode, len(nrows)))
    chk.set('named_constants_checked', len(nrows))
    seen_first = {}
    for r in nrows:
        cat = next(c for pfx, c in NAME_CAT if r['name'] == pfx or r['name'].startswith(pfx + '_'))
        rng = next((lo, hi) for lo, hi, _, c in ranges if c == cat)
        classes.add('name %s in its range: %s' % (cat, rng[0] <= r['value'] <= rng[1]))
        prob = None
        if not (rng[0] <= r['value'] <= rng[1]): prob = 'lies outside the documented range %d-%d of its class' % rng
        elif r['name'].endswith('_LAST') and not r['name'].startswith('MP_') and r['value'] != rng[1]: prob = 'is not the last code %d of its documented range' % rng[1]
        elif r['name'].endswith('_NEW') and r['value'] in seen_first: prob = 'coincides with %s (start of another class\'s custom codes)' % seen_first[r['value']]
        if r['name'].endswith('_NEW'): seen_first[r['value']] = r['name']
        if prob:
            chk.violation('C10 named constant sol::%s %s' % (r['name'], prob), {'name': r['name'], 'value': r['value'], 'class': cat,
                                                                               'documented_range': list(rng)}, {'kind': 'names'})
    # ---- classification predicates, in-process on the driver's backend class
    rc, rows, done, err, brk = run_predicates(binary, LO, HI)
    for b in brk: chk.broken.append('predicate harness: %s' % b.get('why'))
    if rc != 0 or not done or sorted(r['code'] for r in rows) != list(range(LO, HI + 1)):
        chk.broken.append('predicate harness incomplete rc=%s rows=%d stderr=%s' % (rc, len(rows), err))
    pfails = {}
    for r in rows:
        for name in PREDICATES:
            chk.add('predicate_evaluations')
            exp = orc.predicate(name, r['code'])
            classes.add('%s(%s)=%d%s' % (name, orc.cat(r['code']), r[name], '' if exp is not None else ' (not demanded)'))
            if exp is not None and bool(r[name]) != exp:
                pfails.setdefault((name, bool(r[name])), []).append(r['code'])
    for (name, got), codes in sorted(pfails.items()):
        for lo, hi, rng in split_by_ranges(orc, codes):
            arg = '%d' % lo if lo == hi else '%d..%d' % (lo, hi)
            chk.violation('C10 %s(%s)==%s' % (name, arg, 'true' if got else 'false'),
                          {'documented': [r[:3] for r in ranges if (r[0], r[1]) == rng] or 'outside the documented ranges',
                           'expected': not got, 'codes': [lo, hi]},
                          {'kind': 'pred', 'name': name, 'code': lo})
    if rows:
        chk.sample({'predicates at 299': {k: v for k, v in [r for r in rows if r['code'] == 299][0].items() if k != 'type'}}, cap=12)

    # ---- -! table
    rc, out, err = run_bang(binary)
    chk.add('bang_runs')
    if rc != 0 or 'Solve result table' not in out:
        chk.violation('C10 -! switch does not print the solve result table', {'rc': rc, 'stdout': out[-500:], 'stderr': err[-300:]},
                      {'kind': 'bang'})
    else:
        for sig, det in judge_bang(ranges, out):
            chk.violation(sig, det, {'kind': 'bang'})
        listed, lsingles = parse_table(out)
        chk.set('bang_table', {'ranges': ['%d-%d %s' % (a, b, d) for a, b, d in listed],
                               'documented_single_codes_listed': [c for c, _ in singles if c in [x for x, _ in lsingles]]})
        classes.add('-! lists %d ranges, %d single codes' % (len(listed), len(lsingles)))

    # ---- vacuity guards
    for lo, hi, _, _ in ranges:
        if not per_range.get((lo, hi)):
            chk.broken.append('documented range %d-%d has zero explored codes' % (lo, hi))
        if not [r for r in rows if lo <= r['code'] <= hi]:
            chk.broken.append('documented range %d-%d has zero predicate evaluations' % (lo, hi))
    if n_obj_in_msg == 0:
        chk.broken.append('no run had an objective value in the solve message')
    if len(results) != len(cases):
        chk.broken.append('driver runs %d != enumerated cases %d' % (len(results), len(cases)))

    chk.cov['evaluations'] = chk.cov.get('driver_runs', 0) + chk.cov.get('predicate_evaluations', 0) + chk.cov.get('bang_runs', 0)
    vcheck.finalize_classes(chk)
    chk.set('rule', 'complete enumeration: every status code in [%d, %d] x {primal, dual, objective value present/absent}%s plus, per code, one complete answer whose primal point violates the row (does the automatic solution check treat the code as the infeasible class?) and one answer with two alternative solutions written through sol:stub (their .sol files must carry the reported code) and one answer with alg:iisfind=1 where the scripted IIS run reports a new status (the .sol must carry that one); the scripted solver offers rays, so the .unbdd / .dunbdd suffixes show which codes the driver treats as unbounded / infeasible, '
            'one driver process per case (scripted backend on the real RunBackendApp path, tiny LP with one objective); '
            'the six StdBackend classification predicates called on the same backend class for every code; `-!` once. '
            'Oracle: range table parsed from doc/source/features-guide.rst. A class is (documented class of the code, '
            'presence pattern, what the message / .sol showed) or (predicate, documented class, answer).'
            % (LO, HI, ' x IsMIP {0,1}' if tier == 'thorough' else ' (IsMIP=0, so duals are reported)'))
    chk.set('bounds', {'codes': [LO, HI], 'presence_patterns': 11, 'ismip': mips, 'predicates': PREDICATES,
                       'documented_ranges': ['%d-%d %s' % r[:3] for r in ranges]})
    chk.assumptions += [
        'domain: the documented table covers 0..999; codes -200..-1 (sol::NOT_SET, sol::UNKNOWN and everything between) are '
        'explored as well and treated as belonging to no documented class: every predicate must answer false, no objective '
        'in the message, and the code must still be echoed in the .sol',
        '"solved?" 100-199 (documented: solution candidate returned but error likely) is not among the statement\'s '
        '"(solved, unbounded-with-solution, limit-with-solution)": neither presence nor absence of the objective in the '
        'message, nor the answer of IsProblemSolvedOrFeasible, is demanded there (observed behaviour is recorded as a class)',
        'the objective is demanded in the message only when the backend supplied an objective value; when it supplied none '
        'the driver prints the postsolved default ("objective 0") for candidate codes - recorded, not judged',
        '"in the solve message" = first line of the .sol message ("<solver>: <status>[; objective V]"); later lines hold '
        'solver extras and solution-check warnings that may contain the word objective',
        'IsProblemUnbounded = 300-399 (both documented "unbounded" ranges); IsProblemInfOrUnb = 200-399 + 450-469; '
        '"limit" and "failure" have no predicate in StdBackend and are checked through the -! table only',
        '-! must list every documented range with the same bounds and the same class keyword; descriptions are not '
        'compared verbatim; extra ranges / single codes are allowed',
        'the `objno N code` line: code compared for every explored code; N is not judged here (C12)']
    return chk.finish()


def replay(path):
    r = json.load(open(path))['replay']
    binary = build()
    shutil.rmtree(WORK, ignore_errors=True)
    os.makedirs(WORK, exist_ok=True)
    try:
        ranges, _ = documented_table()
        orc = Oracle(ranges)
        if r['kind'] == 'driver':
            case = tuple(r['case'])
            o = observe(binary, os.path.join(WORK, 'replay'), model_nl(), case)
            f = judge(orc, case, o)
            print(json.dumps({'script': script_of(case), 'observed': o, 'findings': f}, indent=1))
            return 1 if f else 0
        if r['kind'] == 'pred':
            rc, rows, done, err, _ = run_predicates(binary, r['code'], r['code'])
            exp = orc.predicate(r['name'], r['code'])
            print(json.dumps({'row': rows, 'expected': exp}))
            return 1 if (not rows or (exp is not None and bool(rows[0][r['name']]) != exp)) else 0
        if r['kind'] == 'names':
            pn = subprocess.run([binary, '--names'], capture_output=True, text=True, cwd=WORK, env={'PATH': '/usr/bin:/bin', 'LC_ALL': 'C'}, timeout=60)
            print(pn.stdout); return 0
        rc, out, err = run_bang(binary)
        f = judge_bang(ranges, out)
        print(out, json.dumps(f, indent=1))
        return 1 if f or rc != 0 else 0
    finally:
        shutil.rmtree(WORK, ignore_errors=True)
