// C10 harness = the scripted AMPL driver (checks/vdriver/vdriver.cc, included verbatim, so every
// driver run of this check goes through the real mp::RunBackendApp path) + one extra entry:
//
//   c10_vdriver --predicates LO HI
//
// instantiates the same backend class the driver uses (mp::ScriptedBackend =
// FlatBackend<MIPBackend<...>> over StdBackend) and, for every status code in [LO, HI], sets it
// with SetStatus() and prints what each classification predicate of StdBackend answers, one JSON
// object per line, then {"type":"done"}.
#define main vdriver_main
#include "../vdriver/vdriver.cc"
#undef main

#include <cstdio>
#include <cstring>

static int predicates(int lo, int hi) {
  mp::ScriptedBackend be;
  for (int code = lo; code <= hi; ++code) {
    be.SetStatus({ code, "scripted" });
    if (be.SolveCode() != code) {
      std::printf("{\"type\":\"broken\",\"why\":\"SolveCode() != code set by SetStatus(%d)\"}\n", code);
      return 2;
    }
    std::printf("{\"type\":\"pred\",\"code\":%d,\"IsProblemSolved\":%d,\"IsProblemSolvedOrFeasible\":%d,"
                "\"IsProblemInfeasible\":%d,\"IsProblemUnbounded\":%d,\"IsProblemIndiffInfOrUnb\":%d,"
                "\"IsProblemInfOrUnb\":%d,\"IsSolStatusRetrieved\":%d}\n",
                code, (int)be.IsProblemSolved(), (int)be.IsProblemSolvedOrFeasible(),
                (int)be.IsProblemInfeasible(), (int)be.IsProblemUnbounded(),
                (int)be.IsProblemIndiffInfOrUnb(), (int)be.IsProblemInfOrUnb(),
                (int)be.IsSolStatusRetrieved());
  }
  std::printf("{\"type\":\"done\"}\n");
  std::fflush(stdout);
  return 0;
}

int main(int argc, char** argv) {
  if (argc == 4 && !std::strcmp(argv[1], "--predicates"))
    return predicates(std::atoi(argv[2]), std::atoi(argv[3]));
  return vdriver_main(argc, argv);
}
