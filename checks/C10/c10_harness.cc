// C10 harness = the scripted AMPL driver (checks/vdriver/vdriver.cc, included verbatim, so every
// driver run of this check goes through the real mp::RunBackendApp path) + one extra entry:
//
//   c10_vdriver --predicates LO HI
//
// instantiates the same backend class the driver uses (mp::ScriptedBackend =
// FlatBackend<MIPBackend<...>> over StdBackend) and, for every status code in [LO, HI], sets it
// with SetStatus() and prints what each classification predicate of StdBackend answers, one JSON
// object per line, then {"type":"done"}.
#define main vdriver_main
#include "../vdriver/vdriver.cc"
#undef main

#include <cstdio>
#include <cstring>

static int predicates(int lo, int hi) {
  mp::ScriptedBackend be;
  for (int code = lo; code <= hi; ++code) {
    be.SetStatus({ code, "scripted" });
    if (be.SolveCode() != code) {
      std::printf("{\"type\":\"broken\",\"why\":\"SolveCode() != code set by SetStatus(%d)\"}\n", code);
      return 2;
    }
    std::printf("{\"type\":\"pred\",\"code\":%d,\"IsProblemSolved\":%d,\"IsProblemSolvedOrFeasible\":%d,"
                "\"IsProblemInfeasible\":%d,\"IsProblemUnbounded\":%d,\"IsProblemIndiffInfOrUnb\":%d,"
                "\"IsProblemInfOrUnb\":%d,\"IsSolStatusRetrieved\":%d}\n",
                code, (int)be.IsProblemSolved(), (int)be.IsProblemSolvedOrFeasible(),
                (int)be.IsProblemInfeasible(), (int)be.IsProblemUnbounded(),
                (int)be.IsProblemIndiffInfOrUnb(), (int)be.IsProblemInfOrUnb(),
                (int)be.IsSolStatusRetrieved());
  }
  std::printf("{\"type\":\"done\"}\n");
  std::fflush(stdout);
  return 0;
}

// --names: every named constant of enum mp::sol::Status with its value (drivers report results through these names)
static int names() {
#define NM(x) std::printf("{\"type\":\"name\",\"name\":\"%s\",\"value\":%d}\n", #x, (int)mp::sol::x);
  NM(SOLVED) NM(SOLVED_LAST) NM(UNCERTAIN) NM(UNCERTAIN_LAST) NM(MP_SOLUTION_CHECK) NM(MP_SOLUTION_CHECK_LAST)
  NM(INFEASIBLE) NM(INFEASIBLE_LAST) NM(INFEASIBLE_NO_IIS) NM(INFEASIBLE_IIS) NM(INFEASIBLE_IIS_FAILED)
  NM(UNBOUNDED_FEAS) NM(UNBOUNDED_FEAS_LAST) NM(UNBOUNDED) NM(UNBOUNDED_NO_FEAS) NM(UNBOUNDED_NO_FEAS_LAST)
  NM(LIMIT_FEAS) NM(LIMIT_FEAS_NEW) NM(LIMIT_FEAS_LAST) NM(LIMIT) NM(LIMIT_FEAS_INTERRUPT) NM(LIMIT_FEAS_TIME)
  NM(LIMIT_FEAS_ITER) NM(LIMIT_FEAS_NODES) NM(LIMIT_FEAS_BESTOBJ_BESTBND) NM(LIMIT_FEAS_GAP) NM(LIMIT_FEAS_BESTOBJ)
  NM(LIMIT_FEAS_BESTBND) NM(LIMIT_FEAS_NUMSOLS) NM(LIMIT_FEAS_WORK) NM(LIMIT_FEAS_SOFTMEM) NM(LIMIT_FEAS_FAILURE)
  NM(LIMIT_INF_UNB) NM(LIMIT_INF_UNB_LAST) NM(INF_OR_UNB) NM(LIMIT_NO_FEAS) NM(LIMIT_NO_FEAS_NEW) NM(LIMIT_NO_FEAS_LAST)
  NM(LIMIT_NO_FEAS_INTERRUPT) NM(LIMIT_NO_FEAS_TIME) NM(LIMIT_NO_FEAS_ITER) NM(LIMIT_NO_FEAS_NODES) NM(LIMIT_NO_FEAS_CUTOFF)
  NM(LIMIT_NO_FEAS_BESTBND) NM(LIMIT_NO_FEAS_WORK) NM(LIMIT_NO_FEAS_SOFTMEM) NM(FAILURE) NM(FAILURE_LAST) NM(NUMERIC)
  NM(SPECIFIC) NM(INTERRUPTED)
#undef NM
  std::printf("{\"type\":\"done\"}\n");
  return 0;
}

int main(int argc, char** argv) {
  if (argc == 2 && !std::strcmp(argv[1], "--names")) return names();
  if (argc == 4 && !std::strcmp(argv[1], "--predicates"))
    return predicates(std::atoi(argv[2]), std::atoi(argv[3]));
  return vdriver_main(argc, argv);
}
