/* Minimal stand-in for the AMPL Solver Library's funcadd.h (ASL is absent in this sandbox).
 *
 * Only what src/gsl/amplgsl.cc uses is provided: `arglist` (same member names and meaning as
 * netlib's funcadd.h), `AmplExports` with the members the file calls, the registration macros
 * (`addfunc`, `at_reset`) and the FUNCADD_* type flags.  `addrandinit` is deliberately NOT
 * defined, so amplgsl.cc takes its pre-20120830 path: rng = gsl_rng_alloc(gsl_rng_env_setup()).
 * Used by checks/C16 only.
 */
#ifndef VERIF_SHIM_FUNCADD_H_
#define VERIF_SHIM_FUNCADD_H_

#include <stdio.h>
#include <stdarg.h>
#include <stddef.h>
#include <limits.h>

#ifdef __cplusplus
extern "C" {
#endif

typedef double real;
typedef void Char;
typedef struct arglist arglist;
typedef struct AmplExports AmplExports;
typedef struct TMInfo TMInfo;
typedef struct func_info func_info;
typedef real (*rfunc)(arglist *);
typedef void Exitfunc(void *);

struct TMInfo { void *opaque; };

struct arglist {
  int n;               /* number of args */
  int nr;              /* number of real input args */
  int *at;             /* argument types */
  real *ra;            /* pure real args */
  const char **sa;     /* symbolic IN args */
  real *derivs;        /* for partial derivatives (if nonzero) */
  real *hes;           /* for second partials (if nonzero) */
  char *dig;           /* if (dig && dig[i]) partials w.r.t. ra[i] will not be used */
  Char *funcinfo;      /* for use by the function (if desired) */
  AmplExports *AE;     /* functions made visible */
  func_info *f;        /* for internal use by AMPL */
  func_info *tva;      /* for internal use by AMPL */
  char *Errmsg;        /* error description; leading ' = first-derivative error, " = second */
  TMInfo *TMI;         /* used in Tempmem calls */
  Char *Private;
  int nin, nout, nsin, nsout;
};

struct AmplExports {
  FILE *StdErr;
  void (*Addfunc)(const char *name, rfunc f, int type, int nargs, void *funcinfo,
                  AmplExports *ae);
  long ASLdate;
  int (*SnprintF)(char *, size_t, const char *, ...);
  int (*VsnprintF)(char *, size_t, const char *, va_list);
  void *(*Tempmem)(TMInfo *, size_t);
  void (*AtReset)(AmplExports *, Exitfunc *, void *);
};

#define FUNCADD_REAL_VALUED 0
#define FUNCADD_STRING_ARGS 1
#define FUNCADD_STRING_VALUED 2
#define FUNCADD_RANDOM_VALUED 4
#define FUNCADD_012ARGS 8

#define addfunc(a, b, c, d, e) (*ae->Addfunc)(a, b, c, d, e, ae)
#define at_reset(f, v) (*ae->AtReset)(ae, f, v)
#define funcadd funcadd_ASL

extern void funcadd_ASL(AmplExports *);

#ifdef __cplusplus
}
#endif
#endif  /* VERIF_SHIM_FUNCADD_H_ */
