// Stateless depth-first explorer over choice sequences (bounded exhaustive exploration).
//
//   Explorer ex;  ex.max_deviations = 2;
//   ex.run_all([&]{ int k = ex.choose(3, "op"); ... });
//
// An execution replays the recorded prefix (a choice that is out of range while replaying is a
// hard error: DIVERGENCE), then takes choice 0 (the default) at every later point.  After the
// execution the last choice point that still has an untried alternative within the deviation
// bound is advanced.  Deviations = number of non-default (non-zero) choices in one execution.
#pragma once
#include <cstdio>
#include <cstdlib>
#include <cstdint>
#include <cstring>
#include <cmath>
#include <string>
#include <vector>
#include <functional>
#include <set>
#include <map>
#include <sstream>

namespace vx {

struct ChoicePoint { int n; int chosen; const char* label; };

struct Explorer {
  int max_deviations = -1;          // -1: unbounded
  long long max_executions = -1;    // cap; hitting it => capped=true
  bool capped = false;
  long long executions = 0, choice_points = 0;
  std::vector<int> prefix;
  std::vector<ChoicePoint> trace;
  size_t pos = 0;

  int choose(int n, const char* label = "") {
    if (n <= 0) { std::fprintf(stderr, "choose(%d) at %s\n", n, label); std::abort(); }
    int c = 0;
    if (pos < prefix.size()) {
      c = prefix[pos];
      if (c >= n) {
        std::printf("{\"type\":\"broken\",\"why\":\"DIVERGENCE at choice %zu label %s: %d >= %d\"}\n",
                    pos, label, c, n);
        std::fflush(stdout); std::abort();
      }
    }
    trace.push_back({n, c, label});
    ++pos; ++choice_points;
    return c;
  }
  // convenience: pick an element
  template <class T> const T& pick(const std::vector<T>& v, const char* label = "") {
    return v[choose((int)v.size(), label)];
  }
  int deviations_upto(size_t i) const {
    int d = 0; for (size_t k = 0; k < i; ++k) if (trace[k].chosen != 0) ++d; return d;
  }
  std::string trace_str() const {
    std::string s;
    for (auto& c : trace) { if (!s.empty()) s += ','; s += std::to_string(c.chosen); }
    return s;
  }
  // Set prefix to the next unexplored sequence; false when the space is exhausted.
  bool advance() {
    for (size_t i = trace.size(); i-- > 0;) {
      int next = trace[i].chosen + 1;
      if (next >= trace[i].n) continue;
      if (max_deviations >= 0) {
        // choosing a non-zero alternative at i costs one deviation (it already does if chosen!=0)
        int d = deviations_upto(i) + 1;
        if (d > max_deviations) continue;
      }
      prefix.clear();
      for (size_t k = 0; k < i; ++k) prefix.push_back(trace[k].chosen);
      prefix.push_back(next);
      return true;
    }
    return false;
  }
  void run_all(const std::function<void()>& body) {
    prefix.clear();
    for (;;) {
      trace.clear(); pos = 0;
      body();
      ++executions;
      if (max_executions >= 0 && executions >= max_executions) { capped = true; return; }
      if (!advance()) return;
    }
  }
  // Replay exactly one sequence.
  void run_one(const std::vector<int>& seq, const std::function<void()>& body) {
    prefix = seq; trace.clear(); pos = 0; body(); ++executions;
  }
};

// ------------------------------------------------------------------ JSON-lines reporting
inline std::string jesc(const std::string& s) {
  std::string o;
  for (unsigned char c : s) {
    switch (c) {
      case '"': o += "\\\""; break;
      case '\\': o += "\\\\"; break;
      case '\n': o += "\\n"; break;
      case '\r': o += "\\r"; break;
      case '\t': o += "\\t"; break;
      default:
        if (c < 0x20 || c == 0x7f) { /* bytes >= 0x80 pass through (UTF-8) */ char b[8]; std::snprintf(b, sizeof b, "\\u%04x", c); o += b; }
        else o += (char)c;
    }
  }
  return o;
}

struct Report {
  std::map<std::string, long long> stats;
  std::set<std::string> classes;
  int samples = 0, sample_cap = 6;
  int violations = 0, violation_cap = 200;
  std::set<std::string> seen_sigs;
  void stat(const std::string& k, long long n = 1) { stats[k] += n; }
  void cls(const std::string& c) { classes.insert(c); }
  void sample(const std::string& json_value) {
    if (samples++ < sample_cap) std::printf("{\"type\":\"sample\",\"v\":%s}\n", json_value.c_str());
  }
  void sample_str(const std::string& s) { sample("\"" + jesc(s) + "\""); }
  // detail_json / replay_json must be valid JSON values
  void violation(const std::string& sig, const std::string& detail_json = "null",
                 const std::string& replay_json = "null") {
    if (!seen_sigs.insert(sig).second) { ++violations; return; }   // one report per signature
    if (violations++ < violation_cap || seen_sigs.size() < 2000) {
      std::printf("{\"type\":\"violation\",\"sig\":\"%s\",\"detail\":%s,\"replay\":%s}\n",
                  jesc(sig).c_str(), detail_json.c_str(), replay_json.c_str());
      std::fflush(stdout);
    }
  }
  void cap(const std::string& why) { std::printf("{\"type\":\"cap\",\"why\":\"%s\"}\n", jesc(why).c_str()); }
  void broken(const std::string& why) { std::printf("{\"type\":\"broken\",\"why\":\"%s\"}\n", jesc(why).c_str()); }
  void done() {
    std::printf("{\"type\":\"stat\"");
    for (auto& kv : stats) std::printf(",\"%s\":%lld", jesc(kv.first).c_str(), kv.second);
    std::printf("}\n");
    for (auto& c : classes) std::printf("{\"type\":\"class\",\"v\":\"%s\"}\n", jesc(c).c_str());
    std::printf("{\"type\":\"done\"}\n");
    std::fflush(stdout);
  }
};

// --shard i/n parsing
struct Shard {
  int i = 0, n = 1;
  bool mine(long long k) const { return (k % n) == i; }
  void parse(int argc, char** argv) {
    for (int a = 1; a + 1 < argc; ++a)
      if (!std::strcmp(argv[a], "--shard")) std::sscanf(argv[a + 1], "%d/%d", &i, &n);
  }
};
inline const char* arg_value(int argc, char** argv, const char* name, const char* dflt = nullptr) {
  for (int a = 1; a + 1 < argc; ++a) if (!std::strcmp(argv[a], name)) return argv[a + 1];
  return dflt;
}
inline bool has_flag(int argc, char** argv, const char* name) {
  for (int a = 1; a < argc; ++a) if (!std::strcmp(argv[a], name)) return true;
  return false;
}

}  // namespace vx
