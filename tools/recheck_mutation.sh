#!/bin/bash
# tools/recheck_mutation.sh <mutation dir> <check id> [extra env]: apply the patch in a second scratch worktree and run our check only
M=$1; ID=$2; WT=/tmp/wt-recheck
if [ ! -d $WT ]; then git -C /repo worktree add $WT HEAD >/dev/null 2>&1 || exit 3; fi
git -C $WT checkout -q -- . ; git -C $WT reset -q --hard $(git -C /repo rev-parse HEAD)
git -C $WT apply $M/patch.diff || { echo "patch does not apply"; exit 4; }
(cd /verif && VERIF_EVIDENCE_DIR=$M/evidence VERIF_REPLAY_DIR=$M/replays VERIF_REPO=$WT bin/check $ID --tier ${TIER:-quick}) > $M/confirm_check.log 2>&1; echo "rc=$?" | tee -a $M/confirm_check.log
grep -c "^VIOLATION" $M/confirm_check.log; grep "signature" $M/confirm_check.log | head -6
git -C $WT checkout -q -- .
