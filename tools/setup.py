#!/usr/bin/env python3
"""setup_cmd: pre-build every harness from /repo's working tree (checks also build on demand)."""
import importlib.util, os, sys, json
V = os.path.dirname(os.path.dirname(os.path.abspath(__file__)))
sys.path.insert(0, os.path.join(V, 'lib'))
os.chdir(V)
m = json.load(open('MANIFEST.json'))
for c in m['checks']:
    pid = c['property_id']
    spec = importlib.util.spec_from_file_location('check_' + pid, os.path.join(V, 'checks', pid, 'check.py'))
    mod = importlib.util.module_from_spec(spec); spec.loader.exec_module(mod)
    if hasattr(mod, 'build'):
        mod.build()
        print('built', pid, flush=True)
