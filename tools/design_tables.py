#!/usr/bin/env python3
"""Prints the markdown tables of DESIGN.md section 7.5 (as-built coverage per check, from evidence/*.json)
and 7.6 (seeded changes and the check that catches each, from seeded/*/meta.json)."""
import glob, json, os, sys
ROOT = os.path.dirname(os.path.dirname(os.path.abspath(__file__)))


def cov_table():
    man = json.load(open(os.path.join(ROOT, 'MANIFEST.json')))
    lv = {c['property_id']: c for c in man['checks']}
    print('| id | level | evaluations | classes | states/transitions | exhaustive | wall s (quick) |')
    print('|----|-------|-------------|---------|--------------------|------------|----------------|')
    for f in sorted(glob.glob(os.path.join(ROOT, 'evidence', 'C*.json'))):
        e = json.load(open(f)); c = e['coverage']
        st = ''
        if 'states' in c: st = '%s / %s' % (c.get('states'), c.get('transitions'))
        print('| %s | %s | %s | %s | %s | %s | %s (%s) |' % (e['property_id'], e['level'], c.get('evaluations'),
              c.get('distinct_nontrivial'), st, c.get('exhaustive'), round(e['wall_s']), e['tier']))


def seeded_table():
    print('| seeded id | file(s) changed | what the change does | caught by | first signatures | note |')
    print('|-----------|-----------------|----------------------|-----------|------------------|------|')
    for d in sorted(glob.glob(os.path.join(ROOT, 'seeded', '*'))):
        mp = os.path.join(d, 'meta.json')
        if not os.path.exists(mp): continue
        m = json.load(open(mp)); oc = m.get('our_check', {})
        sig = '; '.join(s[:90] for s in oc.get('signatures', [])[:2])
        summ = m.get('summary', '').replace('|', '/').replace('\n', ' ')
        if len(summ) > 260: summ = summ[:257] + '...'
        caught = '%s (exit %s, %s VIOLATION lines)' % (oc.get('check'), oc.get('exit'), oc.get('violation_lines'))
        note = m.get('note', '').replace('|', '/')
        if len(note) > 200: note = note[:197] + '...'
        print('| %s | %s | %s | %s | %s | %s |' % (os.path.basename(d), ', '.join('`%s`' % x for x in m.get('files_touched', [])),
              summ, caught, sig.replace('|', '/'), note))


def capture(fn):
    import io, contextlib
    b = io.StringIO()
    with contextlib.redirect_stdout(b): fn()
    return b.getvalue()


def update_design():
    import re
    p = os.path.join(ROOT, 'DESIGN.md'); s = open(p).read()
    s = re.sub(r'<!-- COV-TABLE -->.*?<!-- /COV-TABLE -->', lambda m: '<!-- COV-TABLE -->\n' + capture(cov_table) + '<!-- /COV-TABLE -->', s, flags=re.S)
    s = re.sub(r'<!-- SEEDED-TABLE -->.*?<!-- /SEEDED-TABLE -->', lambda m: '<!-- SEEDED-TABLE -->\n' + capture(seeded_table) + '<!-- /SEEDED-TABLE -->', s, flags=re.S)
    open(p, 'w').write(s)


if __name__ == '__main__':
    which = sys.argv[1] if len(sys.argv) > 1 else 'both'
    if which == 'update': update_design(); sys.exit(0)
    if which in ('cov', 'both'): cov_table(); print()
    if which in ('seeded', 'both'): seeded_table()
