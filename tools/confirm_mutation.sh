#!/bin/bash
# tools/confirm_mutation.sh <mutation dir with patch.diff, demo/run.sh> <check id> [worktree]
# Confirms a seeded change in a scratch worktree: baseline tests, demo without / with the change,
# then runs our check against the changed worktree.  Prints a summary; leaves the worktree clean.
M=$1; ID=$2; WT=${3:-/tmp/wt-confirm}
set -u
if [ ! -d $WT ]; then git -C /repo worktree add $WT HEAD >/dev/null 2>&1 || exit 3; fi
git -C $WT checkout -q -- . ; git -C $WT reset -q --hard $(git -C /repo rev-parse HEAD)
if [ ! -f $WT/_build/build.ninja ]; then cmake -G Ninja -S $WT -B $WT/_build -DCMAKE_BUILD_TYPE=Release >/dev/null || exit 3; fi
cmake --build $WT/_build -j12 >/dev/null 2>&1
echo "== demo WITHOUT change"; (cd $M/demo && bash run.sh $WT) > $M/confirm_demo_without.log 2>&1; echo "rc=$?" | tee -a $M/confirm_demo_without.log
git -C $WT apply $M/patch.diff || { echo "patch does not apply"; exit 4; }
cmake --build $WT/_build -j12 >/dev/null 2>&1 || { echo "BUILD FAILED with change"; }
echo "== baseline WITH change"; python3 /verif/tools/baseline.py --repo $WT 2>&1 | tail -3 | tee $M/confirm_baseline.log
echo "== demo WITH change"; (cd $M/demo && bash run.sh $WT) > $M/confirm_demo_with.log 2>&1; echo "rc=$?" | tee -a $M/confirm_demo_with.log
echo "== our check WITH change"; (cd /verif && VERIF_EVIDENCE_DIR=$M/evidence VERIF_REPLAY_DIR=$M/replays VERIF_REPO=$WT bin/check $ID --tier quick) > $M/confirm_check.log 2>&1; echo "rc=$?" | tee -a $M/confirm_check.log
grep -c "^VIOLATION" $M/confirm_check.log; grep "signature" $M/confirm_check.log | head -5
git -C $WT checkout -q -- .
