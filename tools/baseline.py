#!/usr/bin/env python3
"""Run the repository's pinned baseline (guard MP_VERIF off: the CMake build never defines it)
and compare the passing test cases with /root/.vp/BASELINE.json's stable_pass list.
Usage: tools/baseline.py [--repo DIR] [--build-dir DIR]   exit 0 iff no stable test is missing."""
import argparse, json, os, re, subprocess, sys, tempfile, xml.etree.ElementTree as ET
ap = argparse.ArgumentParser()
ap.add_argument('--repo', default='/repo')
ap.add_argument('--build-dir')
ap.add_argument('--baseline', default='/root/.vp/BASELINE.json')
a = ap.parse_args()
bd = a.build_dir or os.path.join(a.repo, '_build')
if not os.path.exists(os.path.join(bd, 'build.ninja')) and not os.path.exists(os.path.join(bd, 'Makefile')):
    subprocess.check_call(['cmake', '-G', 'Ninja', '-S', a.repo, '-B', bd, '-DCMAKE_BUILD_TYPE=Release'])
r = subprocess.run(['cmake', '--build', bd, '-j16'], capture_output=True, text=True)
if r.returncode != 0:
    print(r.stdout[-3000:], r.stderr[-3000:]); print('BASELINE: build failed'); sys.exit(1)
passed = set()


def collect(junit):
    root = ET.parse(junit).getroot()
    for tc in root.iter('testcase'):
        name = tc.get('name')
        st = tc.get('status')
        if st == 'run' and tc.find('failure') is None:
            passed.add(name); passed.add(name + '::' + name)
        so = tc.find('system-out')
        if so is not None and so.text:
            for m in re.finditer(r'\[\s+OK \] ([\w/]+)\.([\w/]+)', so.text):
                passed.add(m.group(1) + '::' + m.group(2))


OUT = ['--timeout', '900', '--test-output-size-passed', '50000000', '--test-output-size-failed', '50000000']
junit = os.path.join(bd, 'verif-junit.xml')
subprocess.run(['ctest', '--test-dir', bd, '-j8', '--output-junit', junit] + OUT, capture_output=True, text=True)
collect(junit)
base0 = json.load(open(a.baseline))['stable_pass']
if any(t not in passed for t in base0):
    # a few OS-level tests (OSTest::LinkFile, GetExecutablePathUnicode) fail sporadically when several test
    # programs run side by side on a loaded machine: run the failed test programs once more, one at a time
    junit2 = os.path.join(bd, 'verif-junit-rerun.xml')
    subprocess.run(['ctest', '--test-dir', bd, '-j1', '--rerun-failed', '--output-junit', junit2] + OUT, capture_output=True, text=True)
    if os.path.exists(junit2): collect(junit2)
base = json.load(open(a.baseline))['stable_pass']
missing = [t for t in base if t not in passed]
print('BASELINE: stable=%d passed_now=%d missing=%d' % (len(base), len(passed), len(missing)))
for t in missing[:50]:
    print('  MISSING', t)
sys.exit(1 if missing else 0)
