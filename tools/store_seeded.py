#!/usr/bin/env python3
"""tools/store_seeded.py <mutation dir> <seeded id> <check id>: keep a confirmed seeded change under seeded/<id>/"""
import json, os, shutil, sys, re
m, sid, cid = sys.argv[1], sys.argv[2], sys.argv[3]
dst = os.path.join('/verif/seeded', sid)
shutil.rmtree(dst, ignore_errors=True); os.makedirs(dst)
shutil.copy(os.path.join(m, 'patch.diff'), dst)
shutil.copytree(os.path.join(m, 'demo'), os.path.join(dst, 'demo'), ignore=shutil.ignore_patterns('build', '*.o'))
meta = json.load(open(os.path.join(m, 'meta.json')))
def rd(f):
    try: return open(os.path.join(m, f)).read()
    except OSError: return ''
chk = rd('confirm_check.log')
meta['confirmed'] = {
    'baseline_with_change': (re.findall(r'BASELINE:.*', rd('confirm_baseline.log')) or ['?'])[-1],
    'demo_without_change_rc': (re.findall(r'rc=(\d+)', rd('confirm_demo_without.log')) or ['?'])[-1],
    'demo_with_change_rc': (re.findall(r'rc=(\d+)', rd('confirm_demo_with.log')) or ['?'])[-1],
    'ran': 'tools/confirm_mutation.sh %s %s  (scratch worktree /tmp/wt-confirm: cmake build, tools/baseline.py --repo, demo/run.sh, VERIF_REPO=<worktree> bin/check %s --tier quick)' % (m, cid, cid),
}
meta['our_check'] = {'check': cid, 'exit': (re.findall(r'rc=(\d+)', chk) or ['?'])[-1],
                     'violation_lines': len(re.findall(r'^VIOLATION', chk, re.M)),
                     'signatures': re.findall(r'signature: (.*)', chk)[:8]}
json.dump(meta, open(os.path.join(dst, 'meta.json'), 'w'), indent=1)
print(json.dumps(meta['our_check'], indent=1))
