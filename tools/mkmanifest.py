#!/usr/bin/env python3
"""Generate MANIFEST.json from the table below (single source of truth) and validate it."""
import json, os, sys
V = os.path.dirname(os.path.dirname(os.path.abspath(__file__)))
CHECKS = {
 'C17': dict(level='exploration', engine='safeint', ref='3/C17',
   technique='bounded exhaustive enumeration of operand pairs on the real template (all 2^16 pairs per 8-bit type; all 2^32 per 16-bit type in thorough; full boundary-lattice cross product for wider types) against __int128 arithmetic',
   text='Every operand pair of the 8-bit (quick) and 16-bit (thorough) instantiations of mp::SafeInt and the complete cross product of a boundary lattice for 32/64-bit types is executed on the real code under UBSan and compared with exact __int128 arithmetic; the converting constructor is enumerated over all (U,T) pairs of ten integer types.',
   note='Trusts __int128 arithmetic of the compiler and UBSan to flag signed overflow inside the operators; 32/64-bit types are covered on a lattice (boundaries, powers of two, sqrt/quotient neighbourhoods), not on all pairs.'),
 'C15': dict(level='model_checking', engine='sigstep', ref='3/C15',
   technique='stateless model checking of the real SignalHandler under a ptrace-controlled signal scheduler: a fresh child per schedule; 1..3 SIGINT/SIGTERM deliveries at every instruction boundary of the ctor, SetHandler, dtor and HandleSigInt and at phase markers; judged by a reference protocol monitor',
   text='Every single delivery point and every pair of points (67 instruction-level and 8 phase-level in the base run, plus about 35 handler points per delivery) and all phase-level triples are executed on the real code; thorough adds all triples with at least two phase-level points and all triples of any two points followed by a phase-level third. Each observation is checked for never-lost, pair-consistent callbacks, third-interrupt-exits and no call after destruction; violating and every 16th other schedule is replayed twice.',
   note='Bounded to at most 3 signals, two signal numbers, the g++ -O1 x86-64 build and Linux/glibc signal() semantics; triples of three instruction-level points are not explored. A transient no-callback inside a SetHandler window is accepted. Needs ptrace (available in this sandbox).'),
 'C01': dict(level='exploration', engine='flat', ref='3/C01',
   technique='bounded exhaustive enumeration of NL models (operator shapes to depth 2, sharing/canonicalisation/unary-encoding/bound-pattern families) x deviation-bounded closure of acceptance configurations x conversion-option deviations on the real reader+flattener+converter; every grid point of the original variables judged by an NL evaluator against an exhaustive auxiliary-variable search (integer enumeration + Fourier-Motzkin) over the delivered model',
   text='Each generated model is read by the real NL reader, flattened and converted for every acceptance configuration within the deviation bound (relevant types = types actually stored in a keeper; both the API route and the acc:* option route) and for every single conversion-option deviation; for every point of the full grid of original variables NL feasibility must equal existence of auxiliary values for the delivered model, and the best delivered objective must equal the NL objective; refusals must carry a diagnostic and deliver nothing.',
   note='Models are bounded (<=3 variables, grid step 0.5, depth<=2 shapes); acceptance configurations are explored up to 1 (quick) / 2 (thorough) deviations from "only linear rows" and 1 deviation from "everything accepted", API capability flags as presets; PL-approximated runs are outside the exact fragment and skipped; the delivered model is serialised by the library WriteJSON overloads; oracle = ref/aux_search.h cross-checked against lib/delivered.py on every run.'),
 'C04': dict(level='model_checking', engine='flat', ref='3/C04',
   technique='exhaustive exploration of pre/postsolve call histories (depth<=2 quick, <=3 thorough) and of every basis/IIS status vector over the matched rows and slacks on the real converter + value presolver, judged by structural row matching and by a fresh-instance differential',
   text='For every model (subsets of linear rows of each kind interleaved with nonlinear/logical blocks) and acceptance configuration the real ValuePresolver is driven with every transfer of the alphabet on a fresh instance (values must land on / come from the structurally matched items with the documented slack mapping) and then with every bounded history of transfers whose last result must equal the fresh-instance result (history independence).',
   note='Linear NL constraints are matched to delivered rows by coefficient vector and rhs (range -> equality+slack); rows are assumed to reach the solver in AddConstraint call order per group; models <=3 linear rows; priorities and sensitivity suffixes not explored.'),
 'C06': dict(level='exploration', engine='flat', ref='3/C06',
   technique='bounded exhaustive enumeration of functional constraint templates x argument-domain alphabet x parameter alphabet x preprocessing options on the real flattener/converter with an all-accepting API; result bounds/type of every delivered functional constraint checked against the true function on gridded argument domains',
   text='Every functional template (78 unary incl. parameters, 17 binary, 9 ternary) over a 14-domain alphabet (pairs/triples over reduced alphabets) and 4 preprocessing settings is converted; for every delivered functional constraint the true function value at every point of the gridded argument domains must lie in the result variable bounds and be integral for integer results; on finite domains the delivered model must also be point-wise equivalent (constant/alias replacement).',
   note='Containment tolerance 1e-9 relative; infinite ends represented by +-1e3/+-1e9; continuous domains are gridded (endpoints, near-endpoints, 0, +-1, midpoints), not all reals; expressions sit in an objective so no root constraint narrows them.'),
 'C07': dict(level='exploration', engine='flat', ref='3/C07',
   technique='bounded exhaustive enumeration of models x candidate points (all grid points, bound/integrality/objective perturbations) x check modes x fail option on the real SolutionChecker (in-process CheckSolution) against the reference NL evaluator',
   text='For every model of the families and every candidate point the auxiliary variables are set to the true values of their defining expressions (all-native delivery) and CheckSolution is called under 12 mode settings and sol:chk:fail; in modes checking variables and constraints the verdict must equal the reference verdict exactly (iff), in partial modes no spurious report and all bound/objective reports are demanded; fail must raise code 150 exactly in the violating cases.',
   note='Only the all-native delivery is used (auxiliaries functionally determined); tolerance ladder limited to 1e-8/1e-7 (inside) and 0.3/0.5 (outside) on the linear family; mode bits 4/8 only inside mode 1023; the driver-level solve_result 150 path is covered by C09.'),
 'C11': dict(level='model_checking', engine='opts', ref='3/C11',
   technique='bounded exhaustive exploration of option-assignment histories over three sources against a reference map (vx::Explorer), exhaustive short byte strings under ASan/UBSan with guard-page and fork isolation, exhaustive switch sequences against a reference table',
   text='Every history of <=2 assignments over a 336-item alphabet (name forms x separators x typed values, queries, flag, flag=value, unknown names) and, in thorough, every history of 3 assignments over a 59-item alphabet, distributed over mp_options / <solver>_options / argv, is parsed by the real BasicSolver and its read-back state compared with a reference fold; every byte string of length <=5 (<=6) over 10 bytes, alone and behind n=, s=, s=\', d=, plus long tokens, is parsed via ParseOptionString and argv with a guard page behind the NUL and as exact-size heap copies under ASan+UBSan; every argv sequence of <=3 over 13 switch tokens goes through SolverAppOptionParser::Parse.',
   note='Fixed option table (one solver); depth-3 histories use a thinned alphabet; out-of-range numerics judged error-or-exact; wildcard key case not demanded; std::logic_error for an empty name counted as a reported error.'),
 'C18': dict(level='exploration', engine='expr', ref='3/C18',
   technique='bounded exhaustive pairwise comparison: every tree of a finite family (all 71 kinds x all legal arities <=3 over a 13-leaf alphabet, depth 2 over kind-class representatives, all single-point mutations), each built in two ExprFactory instances, all N(N+1)/2 pairs judged by a structural equality on the generator descriptions',
   text='Every unordered pair of 21,168 (quick) / 65,950 (thorough) factory-built trees is run through mp::Equal in both directions and std::hash<mp::Expr> on the real code under ASan+UBSan. Equal must equal an independent structural equality on the tree descriptions (hence an equivalence), be symmetric, imply equal hashes, and never crash. Kinds without a comparator (root STRING, IFSYM, NUMBEROF_SYM) may only throw mp::UnsupportedError.',
   note='Finite family only: arity <=3, depth <=2 (3 via mutation), small constant/index/string alphabets, no NaN, no null children. Function identity is object identity. Hash quality is not checked.'),
}
NOT_YET = {}
def main():
    props = [json.loads(l)['id'] for l in open(os.path.join(V, 'properties.jsonl'))]
    checks = []
    for pid in props:
        if pid not in CHECKS: continue
        c = CHECKS[pid]
        checks.append({
            'property_id': pid,
            'quick_cmd': 'bin/check %s --tier quick' % pid,
            'thorough_cmd': 'bin/check %s --tier thorough' % pid,
            'evidence_file': 'evidence/%s.json' % pid,
            'replay_cmd_template': 'bin/check %s --replay {path}' % pid,
            'engine': c['engine'],
            'level_claimed': {'category': c['level'], 'text': c['text'], 'design_ref': 'DESIGN.md §' + c['ref']},
            'level_note': c['note'],
            'technique': c['technique'],
        })
    na = [{'property_id': p, 'reason': NOT_YET.get(p, 'check not built yet in this round (design in DESIGN.md §3); no claim is made')}
          for p in props if p not in CHECKS]
    m = {
        'version': 1,
        'setup_cmd': 'python3 tools/setup.py',
        'hooks': {'guard': 'MP_VERIF',
                  'enable': 'harnesses are compiled by lib/vbuild.py directly from /repo sources with -DMP_VERIF; the CMake build never defines it',
                  'baseline_off_cmd': 'python3 tools/baseline.py',
                  'source_commits': [], 'add_only': True},
        'engines': [],
        'checks': checks,
        'not_applicable': na,
        'notes': 'All checks are bounded exhaustive explorations of the real code compiled from /repo\'s working tree (see DESIGN.md). known-findings.jsonl lists recorded genuine defects and fixed: entries.',
    }
    json.dump(m, open(os.path.join(V, 'MANIFEST.json'), 'w'), indent=1)
    try:
        import jsonschema
        jsonschema.validate(m, json.load(open('/root/.vp/MANIFEST.schema.json')))
        print('MANIFEST.json valid: %d checks, %d not_applicable' % (len(checks), len(na)))
    except ImportError:
        print('jsonschema not available; written without validation')
if __name__ == '__main__':
    main()
