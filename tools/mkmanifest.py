#!/usr/bin/env python3
"""Generate MANIFEST.json from the table below (single source of truth) and validate it."""
import json, os, sys
V = os.path.dirname(os.path.dirname(os.path.abspath(__file__)))
CHECKS = {
 'C17': dict(level='exploration', engine='safeint', ref='3/C17',
   technique='bounded exhaustive enumeration of operand pairs on the real template (all 2^16 pairs per 8-bit type; all 2^32 per 16-bit type in thorough; full boundary-lattice cross product for wider types) against __int128 arithmetic',
   text='Every operand pair of the 8-bit (quick) and 16-bit (thorough) instantiations of mp::SafeInt and the complete cross product of a boundary lattice for 32/64-bit types is executed on the real code under UBSan and compared with exact __int128 arithmetic; the converting constructor is enumerated over all (U,T) pairs of ten integer types.',
   note='Trusts __int128 arithmetic of the compiler and UBSan to flag signed overflow inside the operators; 32/64-bit types are covered on a lattice (boundaries, powers of two, sqrt/quotient neighbourhoods), not on all pairs.'),
 'C15': dict(level='model_checking', engine='sigstep', ref='3/C15',
   technique='stateless model checking of the real SignalHandler under a ptrace-controlled signal scheduler: a fresh child per schedule; 1..3 SIGINT/SIGTERM deliveries at every instruction boundary of the ctor, SetHandler, dtor and HandleSigInt and at phase markers; judged by a reference protocol monitor',
   text='Every single delivery point and every pair of points (67 instruction-level and 8 phase-level in the base run, plus about 35 handler points per delivery) and all phase-level triples are executed on the real code; thorough adds all triples with at least two phase-level points and all triples of any two points followed by a phase-level third. Each observation is checked for never-lost, pair-consistent callbacks, third-interrupt-exits and no call after destruction; violating and every 16th other schedule is replayed twice.',
   note='Bounded to at most 3 signals, two signal numbers, the g++ -O1 x86-64 build and Linux/glibc signal() semantics; triples of three instruction-level points are not explored. A transient no-callback inside a SetHandler window is accepted. Needs ptrace (available in this sandbox).'),
 'C01': dict(level='exploration', engine='flat', ref='3/C01',
   technique='bounded exhaustive enumeration of NL models (operator shapes to depth 2, sharing/canonicalisation/unary-encoding/bound-pattern families) x deviation-bounded closure of acceptance configurations x conversion-option deviations on the real reader+flattener+converter; every grid point of the original variables judged by an NL evaluator against an exhaustive auxiliary-variable search (integer enumeration + Fourier-Motzkin) over the delivered model',
   text='Each generated model is read by the real NL reader, flattened and converted for every acceptance configuration within the deviation bound (relevant types = types actually stored in a keeper; both the API route and the acc:* option route) and for every single conversion-option deviation; for every point of the full grid of original variables NL feasibility must equal existence of auxiliary values for the delivered model, and the best delivered objective must equal the NL objective; refusals must carry a diagnostic and deliver nothing.',
   note='Models are bounded (<=3 variables, grid step 0.5, depth<=2 shapes); acceptance configurations are explored up to 1 (quick) / 2 (thorough) deviations from "only linear rows" and 1 deviation from "everything accepted", API capability flags as presets; PL-approximated runs are outside the exact fragment and skipped; the delivered model is serialised by the library WriteJSON overloads; oracle = ref/aux_search.h cross-checked against lib/delivered.py on every run.'),
}
NOT_YET = {}
def main():
    props = [json.loads(l)['id'] for l in open(os.path.join(V, 'properties.jsonl'))]
    checks = []
    for pid in props:
        if pid not in CHECKS: continue
        c = CHECKS[pid]
        checks.append({
            'property_id': pid,
            'quick_cmd': 'bin/check %s --tier quick' % pid,
            'thorough_cmd': 'bin/check %s --tier thorough' % pid,
            'evidence_file': 'evidence/%s.json' % pid,
            'replay_cmd_template': 'bin/check %s --replay {path}' % pid,
            'engine': c['engine'],
            'level_claimed': {'category': c['level'], 'text': c['text'], 'design_ref': 'DESIGN.md §' + c['ref']},
            'level_note': c['note'],
            'technique': c['technique'],
        })
    na = [{'property_id': p, 'reason': NOT_YET.get(p, 'check not built yet in this round (design in DESIGN.md §3); no claim is made')}
          for p in props if p not in CHECKS]
    m = {
        'version': 1,
        'setup_cmd': 'python3 tools/setup.py',
        'hooks': {'guard': 'MP_VERIF',
                  'enable': 'harnesses are compiled by lib/vbuild.py directly from /repo sources with -DMP_VERIF; the CMake build never defines it',
                  'baseline_off_cmd': 'python3 tools/baseline.py',
                  'source_commits': [], 'add_only': True},
        'engines': [],
        'checks': checks,
        'not_applicable': na,
        'notes': 'All checks are bounded exhaustive explorations of the real code compiled from /repo\'s working tree (see DESIGN.md). known-findings.jsonl lists recorded genuine defects and fixed: entries.',
    }
    json.dump(m, open(os.path.join(V, 'MANIFEST.json'), 'w'), indent=1)
    try:
        import jsonschema
        jsonschema.validate(m, json.load(open('/root/.vp/MANIFEST.schema.json')))
        print('MANIFEST.json valid: %d checks, %d not_applicable' % (len(checks), len(na)))
    except ImportError:
        print('jsonschema not available; written without validation')
if __name__ == '__main__':
    main()
