#!/usr/bin/env python3
"""Generate MANIFEST.json from the table below (single source of truth) and validate it."""
import json, os, sys
V = os.path.dirname(os.path.dirname(os.path.abspath(__file__)))
CHECKS = {
 'C17': dict(level='exploration', engine='safeint', ref='3/C17',
   technique='bounded exhaustive enumeration of operand pairs on the real template (all 2^16 pairs per 8-bit type; all 2^32 per 16-bit type in thorough; full boundary-lattice cross product for wider types) against __int128 arithmetic',
   text='Every operand pair of the 8-bit (quick) and 16-bit (thorough) instantiations of mp::SafeInt and the complete cross product of a boundary lattice for 32/64-bit types is executed on the real code under UBSan and compared with exact __int128 arithmetic; the converting constructor is enumerated over all (U,T) pairs of ten integer types.',
   note='Trusts __int128 arithmetic of the compiler and UBSan to flag signed overflow inside the operators; 32/64-bit types are covered on a lattice (boundaries, powers of two, sqrt/quotient neighbourhoods), not on all pairs.'),
 'C15': dict(level='model_checking', engine='sigstep', ref='3/C15',
   technique='stateless model checking of the real SignalHandler under a ptrace-controlled signal scheduler: a fresh child per schedule; 1..3 SIGINT/SIGTERM deliveries at every instruction boundary of the ctor, SetHandler, dtor and HandleSigInt and at phase markers; judged by a reference protocol monitor',
   text='Every single delivery point and every pair of points (67 instruction-level and 8 phase-level in the base run, plus about 35 handler points per delivery) and all phase-level triples are executed on the real code; thorough adds all triples with at least two phase-level points and all triples of any two points followed by a phase-level third. Each observation is checked for never-lost, pair-consistent callbacks, third-interrupt-exits and no call after destruction; violating and every 16th other schedule is replayed twice.',
   note='Bounded to at most 3 signals, two signal numbers, the g++ -O1 x86-64 build and Linux/glibc signal() semantics; triples of three instruction-level points are not explored. A transient no-callback inside a SetHandler window is accepted. Needs ptrace (available in this sandbox).'),
 'C01': dict(level='exploration', engine='flat', ref='3/C01',
   technique='bounded exhaustive enumeration of NL models (operator shapes to depth 2, sharing/canonicalisation/unary-encoding/bound-pattern families) x deviation-bounded closure of acceptance configurations x conversion-option deviations on the real reader+flattener+converter; every grid point of the original variables judged by an NL evaluator against an exhaustive auxiliary-variable search (integer enumeration + Fourier-Motzkin) over the delivered model',
   text='Each generated model is read by the real NL reader, flattened and converted for every acceptance configuration within the deviation bound (relevant types = types actually stored in a keeper; both the API route and the acc:* option route) and for every single conversion-option deviation; for every point of the full grid of original variables NL feasibility must equal existence of auxiliary values for the delivered model, and the best delivered objective must equal the NL objective; refusals must carry a diagnostic and deliver nothing.',
   note='Models are bounded (<=3 variables, grid step 0.5, depth<=2 shapes); acceptance configurations are explored up to 1 (quick) / 2 (thorough) deviations from "only linear rows" and 1 deviation from "everything accepted", API capability flags as presets; PL-approximated runs are outside the exact fragment and skipped; the delivered model is serialised by the library WriteJSON overloads; oracle = ref/aux_search.h cross-checked against lib/delivered.py on every run.'),
 'C04': dict(level='model_checking', engine='flat', ref='3/C04',
   technique='exhaustive exploration of pre/postsolve call histories (depth<=2 quick, <=3 thorough) and of every basis/IIS status vector over the matched rows and slacks on the real converter + value presolver, judged by structural row matching and by a fresh-instance differential',
   text='For every model (subsets of linear rows of each kind interleaved with nonlinear/logical blocks) and acceptance configuration the real ValuePresolver is driven with every transfer of the alphabet on a fresh instance (values must land on / come from the structurally matched items with the documented slack mapping) and then with every bounded history of transfers whose last result must equal the fresh-instance result (history independence).',
   note='Linear NL constraints are matched to delivered rows by coefficient vector and rhs (range -> equality+slack); rows are assumed to reach the solver in AddConstraint call order per group; models <=3 linear rows; priorities and sensitivity suffixes not explored.'),
 'C06': dict(level='exploration', engine='flat', ref='3/C06',
   technique='bounded exhaustive enumeration of functional constraint templates x argument-domain alphabet x parameter alphabet x preprocessing options on the real flattener/converter with an all-accepting API; result bounds/type of every delivered functional constraint checked against the true function on gridded argument domains',
   text='Every functional template (78 unary incl. parameters, 17 binary, 9 ternary) over a 14-domain alphabet (pairs/triples over reduced alphabets) and 4 preprocessing settings is converted; for every delivered functional constraint the true function value at every point of the gridded argument domains must lie in the result variable bounds and be integral for integer results; on finite domains the delivered model must also be point-wise equivalent (constant/alias replacement).',
   note='Containment tolerance 1e-9 relative; infinite ends represented by +-1e3/+-1e9; continuous domains are gridded (endpoints, near-endpoints, 0, +-1, midpoints), not all reals; expressions sit in an objective so no root constraint narrows them.'),
 'C07': dict(level='exploration', engine='flat', ref='3/C07',
   technique='bounded exhaustive enumeration of models x candidate points (all grid points, bound/integrality/objective perturbations) x check modes x fail option on the real SolutionChecker (in-process CheckSolution) against the reference NL evaluator',
   text='For every model of the families and every candidate point the auxiliary variables are set to the true values of their defining expressions (all-native delivery) and CheckSolution is called under 12 mode settings and sol:chk:fail; in modes checking variables and constraints the verdict must equal the reference verdict exactly (iff), in partial modes no spurious report and all bound/objective reports are demanded; fail must raise code 150 exactly in the violating cases.',
   note='Only the all-native delivery is used (auxiliaries functionally determined); tolerance ladder limited to 1e-8/1e-7 (inside) and 0.3/0.5 (outside) on the linear family; mode bits 4/8 only inside mode 1023; the driver-level solve_result 150 path is covered by C09.'),
 'C11': dict(level='model_checking', engine='opts', ref='3/C11',
   technique='bounded exhaustive exploration of option-assignment histories over three sources against a reference map (vx::Explorer), exhaustive short byte strings under ASan/UBSan with guard-page and fork isolation, exhaustive switch sequences against a reference table',
   text='Every history of <=2 assignments over a 336-item alphabet (name forms x separators x typed values, queries, flag, flag=value, unknown names) and, in thorough, every history of 3 assignments over a 59-item alphabet, distributed over mp_options / <solver>_options / argv, is parsed by the real BasicSolver and its read-back state compared with a reference fold; every byte string of length <=5 (<=6) over 10 bytes, alone and behind n=, s=, s=\', d=, plus long tokens, is parsed via ParseOptionString and argv with a guard page behind the NUL and as exact-size heap copies under ASan+UBSan; every argv sequence of <=3 over 13 switch tokens goes through SolverAppOptionParser::Parse.',
   note='Fixed option table (one solver); depth-3 histories use a thinned alphabet; out-of-range numerics judged error-or-exact; wildcard key case not demanded; std::logic_error for an empty name counted as a reported error.'),
 'C18': dict(level='exploration', engine='expr', ref='3/C18',
   technique='bounded exhaustive pairwise comparison: every tree of a finite family (all 71 kinds x all legal arities <=3 over a 13-leaf alphabet, depth 2 over kind-class representatives, all single-point mutations), each built in two ExprFactory instances, all N(N+1)/2 pairs judged by a structural equality on the generator descriptions',
   text='Every unordered pair of 21,168 (quick) / 65,950 (thorough) factory-built trees is run through mp::Equal in both directions and std::hash<mp::Expr> on the real code under ASan+UBSan. Equal must equal an independent structural equality on the tree descriptions (hence an equivalence), be symmetric, imply equal hashes, and never crash. Kinds without a comparator (root STRING, IFSYM, NUMBEROF_SYM) may only throw mp::UnsupportedError.',
   note='Finite family only: arity <=3, depth <=2 (3 via mutation), small constant/index/string alphabets, no NaN, no null children. Function identity is object identity. Hash quality is not checked.'),
 'C03': dict(level='exploration', engine='nlrt', ref='3/C03',
   technique='bounded exhaustive enumeration of NL models (vx::Explorer choice sequences over item-class sizes, variable-ordering blocks, bound kinds, linear subsets, defined-variable classes, function calls, suffix subsets, names, every operator x arity and every well-typed operator pair) x all writer configurations, each written by the real mp::WriteNLFile and read by the real mp::ReadNLFile into a recording handler and compared with a transcript computed from the model; plus exhaustive number lattices through the writer nput/apr and the reader ReadConstant',
   text='Every model of 20 families (item-class sizes 0..3, 9 variable-ordering blocks, all bound kinds incl. complementarity, linear-part subsets, 5 defined-variable classes, function calls with numeric/string/symbolic-if arguments, suffixes 4 kinds x int/real x every subset, names, header options, all 65 operators at the root with arities {min,min+1,3}, all 4636 well-typed operator pairs) is cycled through NLW2 and the NL reader under all 24 writer configurations x 2 reader flags: 311K file cycles quick, 2.77M thorough. Numbers: all doubles with low 40 (quick, 2^24) / 36 (thorough, 2^28) mantissa bits zero at formatter level in both formats, and a 69,659-value lattice in whole files in every numeric position.',
   note='Expression depth <=2, item counts <=3; numbers on lattices, not all 2^64 doubles. Trusts the hand-written operator table (optable.h) as the NL specification. OutputPrecision!=0, random-variable segments, C API wrappers and ampl_vbtol with >1 significant digit are out of scope.'),
 'C08': dict(level='exploration', engine='nlw2-easyapi', ref='3/C08',
   technique='bounded exhaustive enumeration of mp::NLModel instances (all column-type vectors over 6 types for 1..3 columns x every Hessian support subset x both declared formats, jointly; all 1- and 2-deviations of the remaining dimensions) written by the real NLSolver::LoadModel / NLW2_* C API, read back by the real mp::ReadNLFile into mp::Problem and compared through the reported permutation with a permutation-free reference model; reference .sol files fed to NLSolver::ReadSolution',
   text='Every NLModel of the stated finite space is written by the real easy-API writer (also through the C API with a byte-identity requirement on a subset), read back with the NL reader, and judged at the reported permutation: bounds, integrality, objective value at all 3^n points of {-1,0,2}^n against c0+c.x+0.5 x\'Qx, rows, header class counts and NL block order, warm starts, all 8 suffix kinds, .col/.row; five reference .sol files per model are returned through ReadSolution and the objective is recomputed.',
   note='<=3 columns, <=2 rows, small dyadic coefficients, one objective, text .sol only; quick takes n=3 Hessian supports on a 60-element covering set; non-core dimensions 1-way and pairwise. The Hessian format enum is undocumented and taken literally (stored matrix).'),
 'C09': dict(level='exploration', engine='vdriver', ref='3/C09',
   technique='bounded exhaustive process-level exploration of the real driver (BackendApp/RunBackendApp with a scripted solver): model families x option strings x invocation modes x names files x scripted answers, plus enumeration of every truncation point of the .sol (RLIMIT_FSIZE=k for all k) and unwritable .sol paths; oracle = process outcome + reference .sol parser + NL-header dimensions + cause-class rules',
   text='4.3K (quick) / 14.7K (thorough) driver processes: every operator shape, proven-infeasible models, every unsupported construct, missing bounds, single deviations of base .nl files (every line deleted, every numeric token replaced, every truncation), nesting ladders, option/mode/names-file alphabets, scripted result codes, and for three representative runs every byte offset at which the file system refuses to grow the .sol; each run must terminate, not crash, and leave either a complete dimensionally right .sol with a code of the right class or a diagnostic on stderr with a non-zero status.',
   note='Models <=3 variables; malformed inputs are single deviations of 5/10 base files; faults are single, on the .sol path only; the sanitizer build excludes operator shapes and byte-offset faults; AMPL itself is not run.'),
 'C10': dict(level='exploration', engine='vdriver', ref='3/C10',
   technique='complete enumeration of solve-result codes on the real driver: every code in [-200,999] x presence/absence of primal, dual and objective values (x IsMIP in thorough), one process of the scripted-backend AMPL driver per case; the six StdBackend classification predicates called on the same backend class for every code; the -! table; judged against the range table parsed from doc/source/features-guide.rst',
   text='All 1200 codes x 8 answer patterns (9,600 runs; 19,200 in thorough) are executed. The .sol objno line must carry the reported code; the first message line must contain the objective exactly when the documented class is solved / unbounded-with-solution / limit-with-solution and a value was supplied; each predicate must equal membership in the documented ranges for all 1200 codes; -! must list every documented range.',
   note='One model (2-variable LP) and one backend class; 100-199 is not judged for the objective; codes above 999 are not explored.'),
 'C12': dict(level='exploration', engine='vdriver', ref='3/C12',
   technique='bounded exhaustive enumeration of NL files with 0..3 objectives (sense x {linear, constant, abs, quadratic}) x objno {unset, 0..n+1} x multiobj x option route x text/binary NL x quadratic-objective acceptance, one driver process per case; delivered objectives compared semantically with a reference selection function and the NL reference evaluator; objno line and rejection diagnostics checked',
   text='Every case (8,752 quick / 54,832 thorough) runs the real reader, flattener, converter and .sol writer. In single mode exactly the selected objective (sense and value at 8 separating points) must be delivered, none for objno 0 or n=0; in multi mode all in file order; objno>n must be rejected with an option error, a failure code and no Solve; the .sol objno must name the objective used.',
   note='n<=3, two variables, one nonlinear operator per objective; multiobj=1 with explicit objno accepts either reading; equality is judged at test points separating span{1,x0,x1,|x0|,x0^2}; the binary NL encoder is the check\'s own.'),
 'C19': dict(level='exploration', engine='vdriver', ref='3/C19',
   technique='bounded exhaustive enumeration of driver runs (real RunBackendApp path incl. .col/.row reading) over models x acceptance configs x cvt:names 0..3 x name-file variants, judged on the names recorded by the solver API: completeness, fidelity, provenance, uniqueness',
   text='For every model of the families (linear mixes, canonicalisation, unary-encoding, sampled sharing/shape models), 3 acceptance configurations, the 4 names modes and 7 name-file variants (absent, plain, CRLF, short, col-only, look-alikes of derived names, bracketed names with blanks) the names delivered with AddVariables / AddConstraint / Set*Objective are checked: non-empty, original items carry the file or documented generic name, derived names start with an NL item name, no two delivered variables and no two delivered constraints share a name.',
   note='Models <=3 variables; provenance of an unnamed/duplicated item is taken from the graph export of the same run; known inherent collisions of the counted-name scheme are listed in known-findings.jsonl by suffix-chain pattern.'),
 'C20': dict(level='exploration', engine='vdriver', ref='3/C20',
   technique='bounded exhaustive enumeration of driver runs with cvt:writegraph over models x acceptance configs x names modes x name alphabets (quotes, backslashes, control/UTF-8 characters); strict JSON parsing and referential validation of every record against the constraints recorded by the solver API in the same run',
   text='Every line of every exported graph must be a JSON object under a strict parser; every NL variable/constraint/objective and every delivered variable/objective must appear; each stored constraint has exactly one creation and one final-status record with consistent unused/bridged/final flags and contiguous indices; every link reference lies inside its item class; the constraints marked final equal (per type count and name multiset) the AddConstraint calls recorded by RecAPI.',
   note='The k-th delivered constraint of a type is matched to the k-th final record of that type; infinite bounds of unbounded variables are not in the model alphabet (bounded variables only).'),
 'C05': dict(level='exploration', engine='solrt', ref='3/C05',
   technique='bounded exhaustive enumeration of solutions (every alternative of 10 dimensions one at a time over full alphabets, every pair over reduced alphabets, vx::Explorer deviation bound 1/2) written by the real mp::WriteSolFile(SolutionAdapter<mp::Problem>) and read by the real mp::ReadSOLFile into a recording handler; field-wise comparator of the statement; independent encoder/parser as second opinion',
   text='Every alternative of sizes 0..3 x 0..2, absent/present vectors, 7 solve codes, objno 0..2, 0..9 options + vbtol request form, all 400 messages of <=3 lines over a 7-symbol alphabet + CR/long-line extension, 72 single-suffix configurations + suffix sets, a number lattice (quick 6.3k values; thorough all 2^20 doubles with low 44 mantissa bits zero + decade neighbours + 17-digit/integral/range-end values) in primal/dual/real-suffix roles and every non-finite value at every role, plus every pair of alternatives over reduced alphabets, is round-tripped under ASan+UBSan and compared field by field.',
   note='Text format only (no binary writer exists); interactions of >=3 dimensions, sizes above 3/2, messages above 3 lines and numbers outside the lattice are not covered; message equality uses the stated CRLF/backspace/terminator equivalences.'),
 'C14': dict(level='exploration', engine='solrt', ref='3/C14',
   technique='bounded exhaustive deviation enumeration on the real reader: 14 valid base files x {text, reference-codec binary} with 0/1/(thorough) 2 deviations of every numeric token, line, binary field, record and record length; every truncation point; suffix-header lattice; long lines; crossed with declared sizes {0, smaller, equal, larger} and 6 handlers (incl. SOLHandler_Easy via NLSolver::ReadSolution); one forked ASan+UBSan child per batch with per-input attribution; delivery-protocol monitor',
   text='Each enumerated file/size/handler combination (173K quick, 1.45M thorough) is read by the real mp::ReadSOLFile; termination, absence of sanitizer reports, documented result code with message, no escaping exception, offered counts <= declared sizes, delivered suffix consistent with the header stated in the file, and "incomplete vector => not OK" are checked on every one.',
   note='Not all byte strings: <=2 structured deviations of 14 shapes plus the stated lattices; binary base files come from our own codec; a table shorter than stated is accepted; bad_alloc above 256 MB counts as resource refusal; uninitialised reads are not observed (no MSan).'),
 'C13': dict(level='exploration', engine='plapprox', ref='3/C13',
   technique='bounded exhaustive enumeration of mp::PLApproximate<Con> inputs on the real code: 17 constraint types (30 function instances over bases {0.5,2,e,10} and exponents {-2,-1,-0.5,0.5,1.5,2,3,4}) x all ordered pairs, tiny and point intervals over a 10- (quick) / 14-value (thorough) endpoint alphabet x ubErr 1e-1..1e-4 (thorough ..1e-6) x integer/continuous argument, one forked ASan/UBSan child per case with a CPU-time horizon, judged by an independent long-double reference',
   text='Every case of the stated finite input space (15,600 quick / 42,840 thorough) is executed on the real approximator. Each delivered PL function is checked for finite, strictly increasing breakpoints that start and end at the reported domain, and for |f-pl| <= ubErr*max(1,|f|) on every segment at the endpoints, a 140-point grid refined towards both ends, bisected stationary points of the absolute and relative error on each monotone piece of f\', and the pre-images of +-1. Periodic approximations are checked as the converter uses them; integer arguments at the integers, with exactness when one breakpoint per integer is used; non-termination is detected by a CPU horizon.',
   note='Point-wise sampling: the error between samples is not bounded analytically (the measured maximum can only under-estimate). Glibc long-double libm is trusted. The space is an alphabet of intervals/tolerances, not all reals. Exponent 0 (never passed by the converter) is probed, not judged. The 1e-4 minimum breakpoint spacing findings are listed in known-findings.jsonl.'),
}
NOT_YET = {}
def main():
    props = [json.loads(l)['id'] for l in open(os.path.join(V, 'properties.jsonl'))]
    checks = []
    for pid in props:
        if pid not in CHECKS: continue
        c = CHECKS[pid]
        checks.append({
            'property_id': pid,
            'quick_cmd': 'bin/check %s --tier quick' % pid,
            'thorough_cmd': 'bin/check %s --tier thorough' % pid,
            'evidence_file': 'evidence/%s.json' % pid,
            'replay_cmd_template': 'bin/check %s --replay {path}' % pid,
            'engine': c['engine'],
            'level_claimed': {'category': c['level'], 'text': c['text'], 'design_ref': 'DESIGN.md §' + c['ref']},
            'level_note': c['note'],
            'technique': c['technique'],
        })
    na = [{'property_id': p, 'reason': NOT_YET.get(p, 'check not built yet in this round (design in DESIGN.md §3); no claim is made')}
          for p in props if p not in CHECKS]
    m = {
        'version': 1,
        'setup_cmd': 'python3 tools/setup.py',
        'hooks': {'guard': 'MP_VERIF',
                  'enable': 'harnesses are compiled by lib/vbuild.py directly from /repo sources with -DMP_VERIF; the CMake build never defines it',
                  'baseline_off_cmd': 'python3 tools/baseline.py',
                  'source_commits': [], 'add_only': True},
        'engines': [
            {'name': 'flat', 'path': 'checks/flat/flatsrv.cc + lib/flatlib.py flatcheck.py flatgen.py nlmodel.py delivered.py + ref/rec_api.h ref/aux_search.h',
             'serves_properties': ['C01', 'C04', 'C06', 'C07'],
             'kind_free_text': 'in-process server around the real NL reader + ProblemFlattener + MIPFlatConverter with a recording ModelAPI; bounded exhaustive model/configuration/history enumeration driven from Python'},
            {'name': 'vdriver', 'path': 'checks/vdriver/vdriver.cc + lib/vdriverlib.py',
             'serves_properties': ['C09', 'C10', 'C12', 'C19', 'C20'],
             'kind_free_text': 'complete AMPL driver on the real RunBackendApp path with a scripted solver; one process per explored case'},
            {'name': 'sigstep', 'path': 'checks/C15', 'serves_properties': ['C15'],
             'kind_free_text': 'ptrace-controlled signal scheduler: stateless exploration of signal delivery instants at instruction granularity'},
            {'name': 'explorer', 'path': 'engine/explore.h', 'serves_properties': ['C02', 'C03', 'C05', 'C08', 'C11', 'C14', 'C16', 'C17', 'C18', 'C13'],
             'kind_free_text': 'stateless DFS over choice sequences with deviation bounding (vx::Explorer) and sharded JSON-lines reporting, inside per-property C++ harnesses built from the tree with sanitizers'},
        ],
        'checks': checks,
        'not_applicable': na,
        'notes': 'All checks are bounded exhaustive explorations of the real code compiled from /repo\'s working tree (see DESIGN.md). known-findings.jsonl lists recorded genuine defects and fixed: entries.',
    }
    json.dump(m, open(os.path.join(V, 'MANIFEST.json'), 'w'), indent=1)
    try:
        import jsonschema
        jsonschema.validate(m, json.load(open('/root/.vp/MANIFEST.schema.json')))
        print('MANIFEST.json valid: %d checks, %d not_applicable' % (len(checks), len(na)))
    except ImportError:
        print('jsonschema not available; written without validation')
if __name__ == '__main__':
    main()
