// Recording / monitoring SOLHandler for the real mp::ReadSOLFile (used by C05 and C14).
//
// The monitor records everything the reader delivers (solref::Parsed) and, independently of the
// reader's own bookkeeping, the delivery protocol facts the properties talk about:
//   * how many values each vector reader OFFERED at callback entry (Size()),
//   * whether a ReadNext() failed, whether the handler left a vector unfinished / called SetError,
//   * suffix kind / name / table / offered count as delivered.
#pragma once
#include <new>
#include <string>
#include <vector>
#include <exception>
#include <typeinfo>
#include <unistd.h>
#include <sys/mman.h>
#include "mp/sol-reader2.hpp"
#include "sol_codec.h"

namespace solmon {

enum Policy { READ_ALL = 0, STOP_AFTER_ONE, READ_NONE, SET_ERROR, REJECT_OPTIONS, N_POLICIES };
inline const char* policy_name(int p) {
  static const char* n[] = {"read_all", "stop_after_one", "read_none", "set_error", "reject_options"};
  return p >= 0 && p < N_POLICIES ? n[p] : "?";
}

struct VecObs {
  std::string what;        // dual | primal | intsuffix | dblsuffix
  int offered = 0, read = 0;
  bool read_failed = false, left_unfinished = false, set_error = false;
};
struct SufObs { int kind; std::string name, table; int offered; };

struct Monitor : mp::SOLHandler {
  mp::NLHeader hdr;
  int policy = READ_ALL;
  solref::Parsed rec;
  std::vector<VecObs> vecs;
  std::vector<SufObs> sufs;
  int callbacks = 0;

  Monitor(int nvars, int ncons, int nobjs, int pol = READ_ALL) : policy(pol) {
    hdr.num_vars = nvars; hdr.num_algebraic_cons = ncons; hdr.num_objs = nobjs;
  }
  mp::NLHeader Header() const { return hdr; }

  void OnSolveMessage(const char* s, int nbs) { ++callbacks; rec.has_message = true; rec.message = s; rec.nbs = nbs; }
  int OnAMPLOptions(const AMPLOptions& ao) {
    ++callbacks; rec.has_options = true; rec.options_raw = ao.options_; rec.has_vbtol = ao.has_vbtol_;
    rec.vbtol = ao.has_vbtol_ ? ao.vbtol_ : 0;
    return policy == REJECT_OPTIONS ? 7 : 0;
  }
  template <class VR, class Sink>
  void consume(VR& rd, const char* what, Sink sink) {
    ++callbacks;
    VecObs o; o.what = what; o.offered = rd.Size();
    auto one = [&]() {
      auto v = rd.ReadNext();
      if (rd.ReadResult() != NLW2_SOLRead_OK) { o.read_failed = true; return false; }
      sink(v); ++o.read; return true;
    };
    switch (policy) {
      case STOP_AFTER_ONE: if (rd.Size() > 0) one(); break;
      case READ_NONE: break;
      case SET_ERROR:
        if (rd.Size() > 0) one();
        if (!o.read_failed) { rd.SetError(NLW2_SOLRead_Bad_Suffix, "monitor: handler refuses this vector"); o.set_error = true; }
        break;
      default: while (rd.Size() > 0) if (!one()) break;
    }
    o.left_unfinished = rd.Size() > 0;
    vecs.push_back(o);
  }
  template <class VR> void OnDualSolution(VR& rd) { rec.has_dual = true; consume(rd, "dual", [&](double v) { rec.dual.push_back(v); }); }
  template <class VR> void OnPrimalSolution(VR& rd) { rec.has_primal = true; consume(rd, "primal", [&](double v) { rec.primal.push_back(v); }); }
  void OnObjno(int n) { ++callbacks; rec.has_objno = true; rec.objno = n; }
  void OnSolveCode(int c) { ++callbacks; rec.has_code = true; rec.solve_code = c; }
  template <class SR> void suffix(SR& sr, const char* what) {
    const auto& si = sr.SufInfo();
    sufs.push_back({si.Kind(), si.Name(), si.Table(), sr.Size()});
    solref::Suffix f; f.kind = si.Kind(); f.name = si.Name(); f.table = si.Table();
    rec.suffixes.push_back(f);
    size_t k = rec.suffixes.size() - 1;
    consume(sr, what, [&](std::pair<int, typename SR::value_type::second_type> v) {
      rec.suffixes[k].values.push_back({v.first, (double)v.second}); });
  }
  template <class SR> void OnIntSuffix(SR& sr) { suffix(sr, "intsuffix"); }
  template <class SR> void OnDblSuffix(SR& sr) { suffix(sr, "dblsuffix"); }
};

// NLUtils that keeps stdout/stderr clean (stdout carries the harness protocol)
struct QuietUtils : mp::NLUtils {
  void log_message(const char*, ...) override {}
  void log_warning(const char*, ...) override {}
};

struct Outcome {
  int code = -100; std::string msg; std::string exc;   // exc: "" | "bad_alloc" | "<type>: what"
  int internal_rv = 0;
};
inline const char* code_name(int c) {
  switch (c) {
    case -1: return "Result_Not_Set"; case 0: return "OK"; case 1: return "Fail_Open"; case 2: return "Early_EOF";
    case 3: return "Bad_Format"; case 4: return "Bad_Line"; case 5: return "Bad_Options";
    case 6: return "Vector_Not_Finished"; case 7: return "Bad_Suffix"; default: return "UNDOCUMENTED_CODE";
  }
}
template <class H>
inline Outcome read_sol(const std::string& path, H& h) {
  Outcome o; QuietUtils ut;
  try {
    auto r = mp::ReadSOLFile(path, h, ut, &o.internal_rv);
    o.code = (int)r.first; o.msg = r.second;
  } catch (const std::bad_alloc&) { o.exc = "bad_alloc"; }
  catch (const std::exception& e) { o.exc = std::string(typeid(e).name()) + ": " + e.what(); }
  catch (...) { o.exc = "unknown exception"; }
  return o;
}

// In-memory scratch file reachable by name (no dependence on /tmp): /proc/self/fd/N of a memfd.
struct MemFile {
  int fd = -1; std::string path;
  MemFile() { fd = memfd_create("verif_sol", 0); path = "/proc/self/fd/" + std::to_string(fd); }
  ~MemFile() { if (fd >= 0) close(fd); }
  bool ok() const { return fd >= 0; }
  void put(const std::string& bytes) {
    if (ftruncate(fd, 0) != 0) {}
    size_t off = 0; while (off < bytes.size()) { ssize_t w = pwrite(fd, bytes.data() + off, bytes.size() - off, off); if (w <= 0) break; off += (size_t)w; }
  }
  std::string get() const {
    std::string o; char b[4096]; off_t off = 0;
    for (;;) { ssize_t r = pread(fd, b, sizeof b, off); if (r <= 0) break; o.append(b, (size_t)r); off += r; }
    return o;
  }
};

}  // namespace solmon
