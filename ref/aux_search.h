// Exact auxiliary-variable search over a delivered model (C++ twin of lib/delivered.py; the two are
// cross-checked against each other on every run of the flat checks).
//
//   Delivered D(vars_json, objs_json, cons_json_list, norig);
//   D.search(p, want_obj) -> exists aux: delivered(p, aux) ; best delivered objective over aux
//
// Exhaustive: functional propagation, enumeration of integer auxiliaries (finite boxes), and
// Fourier-Motzkin elimination for the remaining continuous auxiliaries (they occur linearly).
// Anything outside that scheme throws Undecided (counted, never a verdict).
#pragma once
#include <cmath>
#include <map>
#include <set>
#include <string>
#include <vector>
#include <memory>
#include <stdexcept>
#include <algorithm>
#include <cstring>
#include <cstdlib>
#include <gmpxx.h>

namespace ax {

// ------------------------------------------------------------------------- minimal JSON
struct JV;
typedef std::shared_ptr<JV> JP;
struct JV {
  enum K { NUL, NUM, STR, ARR, OBJ, BOOL } k = NUL;
  double num = 0; std::string str; std::vector<JP> arr; std::map<std::string, JP> obj; bool b = false;
  const JV& operator[](const std::string& key) const {
    auto it = obj.find(key); if (it == obj.end()) throw std::runtime_error("json key " + key); return *it->second;
  }
  bool has(const std::string& key) const { return obj.count(key) > 0; }
  const JV& at(size_t i) const { return *arr.at(i); }
  size_t size() const { return arr.size(); }
  std::vector<double> dvec() const { std::vector<double> v; for (auto& e : arr) v.push_back(e->num); return v; }
  std::vector<int> ivec() const { std::vector<int> v; for (auto& e : arr) v.push_back((int)e->num); return v; }
};
struct JParser {
  const char* p;
  explicit JParser(const std::string& s) : p(s.c_str()) {}
  void ws() { while (*p == ' ' || *p == '\n' || *p == '\t' || *p == '\r') ++p; }
  JP parse() {
    ws(); JP v(new JV);
    if (*p == '{') { v->k = JV::OBJ; ++p; ws(); if (*p == '}') { ++p; return v; }
      for (;;) { ws(); JP key = parse(); ws(); if (*p != ':') throw std::runtime_error("json :"); ++p;
        v->obj[key->str] = parse(); ws(); if (*p == ',') { ++p; continue; } if (*p == '}') { ++p; break; }
        throw std::runtime_error("json obj"); }
      return v; }
    if (*p == '[') { v->k = JV::ARR; ++p; ws(); if (*p == ']') { ++p; return v; }
      for (;;) { v->arr.push_back(parse()); ws(); if (*p == ',') { ++p; continue; } if (*p == ']') { ++p; break; }
        throw std::runtime_error("json arr"); }
      return v; }
    if (*p == '"') { v->k = JV::STR; ++p;
      while (*p && *p != '"') { if (*p == '\\' && p[1]) { ++p; char c = *p; v->str += c == 'n' ? '\n' : c == 't' ? '\t' : c; }
        else v->str += *p; ++p; }
      if (*p == '"') ++p; return v; }
    if (!std::strncmp(p, "null", 4)) { p += 4; return v; }
    if (!std::strncmp(p, "true", 4)) { p += 4; v->k = JV::BOOL; v->b = true; return v; }
    if (!std::strncmp(p, "false", 5)) { p += 5; v->k = JV::BOOL; return v; }
    v->k = JV::NUM;
    if (!std::strncmp(p, "inf", 3)) { p += 3; v->num = INFINITY; return v; }
    if (!std::strncmp(p, "-inf", 4)) { p += 4; v->num = -INFINITY; return v; }
    if (!std::strncmp(p, "nan", 3)) { p += 3; v->num = NAN; return v; }
    if (!std::strncmp(p, "-nan", 4)) { p += 4; v->num = NAN; return v; }
    char* e; v->num = std::strtod(p, &e); if (e == p) throw std::runtime_error(std::string("json value at ") + std::string(p).substr(0, 20));
    p = e; return v;
  }
};
inline JP jparse(const std::string& s) { return JParser(s).parse(); }

// ------------------------------------------------------------------------- delivered model
struct Undecided : std::runtime_error { explicit Undecided(const std::string& s) : std::runtime_error(s) {} };
struct FuncUndefined {};

static const double AINF = INFINITY;
static const double TOL = 1e-7;
static const double EPS_STRICT = 1e-4;

struct Body { std::vector<double> lc; std::vector<int> lv; std::vector<double> qc; std::vector<int> q1, q2; };
inline Body body_of(const JV& b) {
  Body r;
  const JV& lin = b.has("lin_terms") ? b["lin_terms"] : b;
  r.lc = lin["coefs"].dvec(); r.lv = lin["vars"].ivec();
  if (b.has("qp_terms")) { const JV& q = b["qp_terms"]; r.qc = q["coefs"].dvec(); r.q1 = q["vars1"].ivec(); r.q2 = q["vars2"].ivec(); }
  return r;
}
enum CK { ALG, IND, COND, SOS, COMPL, LFC, QFC, CONE, RCONE, FUNC, DUMMY, OTHER };
struct Con {
  CK k = OTHER; std::string tn;
  Body body; double lb = -AINF, ub = AINF;      // alg / ind / cond inner / lfc-qfc expr
  int res = -1; std::vector<int> args; std::vector<double> params; std::vector<double> plx, ply;
  int bin_var = -1, bin_val = 0; int ck = 0;    // cond kind: 0 ==, 1 >=, 2 >, -1 <=, -2 <
  double const_term = 0; int compl_var = -1; int sos_type = 0; std::vector<double> weights;
};
struct Assign {
  std::vector<double> v; std::vector<char> known;
  bool has(int i) const { return known[i]; }
  void set(int i, double x) { v[i] = x; known[i] = 1; }
};
typedef std::map<int, double> Co;

inline void rng_of(const JV& rr, double& lb, double& ub) {
  if (rr.at(0).k == JV::STR) {
    const std::string& k = rr.at(0).str; double r = rr.at(1).num;
    if (k == "LE") { lb = -AINF; ub = r; } else if (k == "GE") { lb = r; ub = AINF; } else { lb = ub = r; }
  } else { lb = rr.at(0).num; ub = rr.at(1).num; if (lb <= -1e300) lb = -AINF; if (ub >= 1e300) ub = AINF; }
}
inline int cond_kind(const std::string& tn) {
  auto p = tn.find("AlgConRhsIL");
  if (p == std::string::npos) throw Undecided("cond kind " + tn);
  std::string s = tn.substr(p + 11, 4);
  if (!s.compare(0, 3, "i0E")) return 0; if (!s.compare(0, 3, "i1E")) return 1; if (!s.compare(0, 3, "i2E")) return 2;
  if (!s.compare(0, 4, "in1E")) return -1; if (!s.compare(0, 4, "in2E")) return -2;
  throw Undecided("cond kind " + tn);
}

inline double pl_points_eval(const std::vector<double>& px, const std::vector<double>& py, double x) {
  size_t n = px.size();
  if (n == 1) return py[0];
  if (x <= px[0]) { double s = (py[1] - py[0]) / (px[1] - px[0]); return py[0] + s * (x - px[0]); }
  if (x >= px[n - 1]) { double s = (py[n - 1] - py[n - 2]) / (px[n - 1] - px[n - 2]); return py[n - 1] + s * (x - px[n - 1]); }
  for (size_t i = 0; i + 1 < n; ++i)
    if (px[i] <= x && x <= px[i + 1]) { double t = (x - px[i]) / (px[i + 1] - px[i]); return py[i] + t * (py[i + 1] - py[i]); }
  return NAN;
}

inline double func_value(const Con& c, const std::vector<double>& x) {
  const std::string& tn = c.tn; const std::vector<double>& P = c.params;
  auto r9 = [](double t) { return std::round(t * 1e9) / 1e9; };
  if (tn == "MaxConstraint") return *std::max_element(x.begin(), x.end());
  if (tn == "MinConstraint") return *std::min_element(x.begin(), x.end());
  if (tn == "AbsConstraint") return std::fabs(x[0]);
  if (tn == "AndConstraint") { for (double t : x) if (t < 0.5) return 0; return 1; }
  if (tn == "OrConstraint") { for (double t : x) if (t >= 0.5) return 1; return 0; }
  if (tn == "NotConstraint") return x[0] < 0.5 ? 1 : 0;
  if (tn == "DivConstraint") { if (x[1] == 0) throw FuncUndefined(); return x[0] / x[1]; }
  if (tn == "IfThenConstraint") return x[0] >= 0.5 ? x[1] : x[2];
  if (tn == "ImplicationConstraint") return ((x[0] >= 0.5 && x[1] >= 0.5) || (x[0] < 0.5 && x[2] >= 0.5)) ? 1 : 0;
  if (tn == "AllDiffConstraint") { std::set<double> s; for (double t : x) s.insert(r9(t)); return s.size() == x.size() ? 1 : 0; }
  if (tn == "NumberofConstConstraint") { int n = 0; for (double t : x) if (std::fabs(t - P[0]) < 1e-9) ++n; return n; }
  if (tn == "NumberofVarConstraint") { int n = 0; for (size_t i = 1; i < x.size(); ++i) if (std::fabs(x[i] - x[0]) < 1e-9) ++n; return n; }
  if (tn == "CountConstraint") { int n = 0; for (double t : x) if (t >= 0.5) ++n; return n; }
  double v = NAN;
  if (tn == "PowConstraint") {
    if (x[0] < 0 && P[0] != std::floor(P[0])) throw FuncUndefined();
    if (x[0] == 0 && P[0] < 0) throw FuncUndefined();
    v = std::pow(x[0], P[0]);
  } else if (tn == "ExpConstraint") v = std::exp(x[0]);
  else if (tn == "ExpAConstraint") v = std::pow(P[0], x[0]);
  else if (tn == "LogConstraint") { if (x[0] <= 0) throw FuncUndefined(); v = std::log(x[0]); }
  else if (tn == "LogAConstraint") { if (x[0] <= 0) throw FuncUndefined(); v = std::log(x[0]) / std::log(P[0]); }
  else if (tn == "SinConstraint") v = std::sin(x[0]);
  else if (tn == "CosConstraint") v = std::cos(x[0]);
  else if (tn == "TanConstraint") v = std::tan(x[0]);
  else if (tn == "AsinConstraint") { if (std::fabs(x[0]) > 1) throw FuncUndefined(); v = std::asin(x[0]); }
  else if (tn == "AcosConstraint") { if (std::fabs(x[0]) > 1) throw FuncUndefined(); v = std::acos(x[0]); }
  else if (tn == "AtanConstraint") v = std::atan(x[0]);
  else if (tn == "SinhConstraint") v = std::sinh(x[0]);
  else if (tn == "CoshConstraint") v = std::cosh(x[0]);
  else if (tn == "TanhConstraint") v = std::tanh(x[0]);
  else if (tn == "AsinhConstraint") v = std::asinh(x[0]);
  else if (tn == "AcoshConstraint") { if (x[0] < 1) throw FuncUndefined(); v = std::acosh(x[0]); }
  else if (tn == "AtanhConstraint") { if (std::fabs(x[0]) >= 1) throw FuncUndefined(); v = std::atanh(x[0]); }
  else if (tn == "PLConstraint") v = pl_points_eval(c.plx, c.ply, x[0]);
  else throw Undecided("functional type " + tn);
  if (std::isnan(v) || std::isinf(v)) throw FuncUndefined();
  return v;
}
inline bool is_func_type(const std::string& tn) {
  static const std::set<std::string> S = {"MaxConstraint", "MinConstraint", "AbsConstraint", "AndConstraint",
    "OrConstraint", "NotConstraint", "DivConstraint", "IfThenConstraint", "ImplicationConstraint",
    "AllDiffConstraint", "NumberofConstConstraint", "NumberofVarConstraint", "CountConstraint", "PowConstraint",
    "PLConstraint", "ExpConstraint", "ExpAConstraint", "LogConstraint", "LogAConstraint", "SinConstraint",
    "CosConstraint", "TanConstraint", "AsinConstraint", "AcosConstraint", "AtanConstraint", "SinhConstraint",
    "CoshConstraint", "TanhConstraint", "AsinhConstraint", "AcoshConstraint", "AtanhConstraint"};
  return S.count(tn) > 0;
}

struct Row { Co co; double lb, ub; };

// Fourier-Motzkin: rows lb <= sum <= ub over variables `elim`; optional objective (oc, o0).
inline bool fm_feasible(const std::vector<Row>& rows, const std::vector<int>& elim_in, const Co* oc, double o0,
                        double& lo, double& hi) {
  const int Z = -1000000;
  // Gaussian step first: an equality row containing a variable to eliminate defines it; substitute it
  // everywhere (keeps Fourier-Motzkin small).  The objective is the equality  oc.x - z = -o0.
  std::vector<Row> work = rows;
  if (oc) { Co co = *oc; co[Z] = -1.0; work.push_back(Row{co, -o0, -o0}); }
  std::vector<int> elim = elim_in; std::set<int> elimset(elim.begin(), elim.end());
  for (bool progress = true; progress;) {
    progress = false;
    for (size_t ri = 0; ri < work.size(); ++ri) {
      Row r = work[ri];
      if (r.lb != r.ub || r.lb == AINF || r.lb == -AINF) continue;
      int v = 0; double best = 0;
      for (auto& kv : r.co) if (elimset.count(kv.first) && std::fabs(kv.second) > 1e-9 &&
                                (std::fabs(kv.second) > best || (std::fabs(kv.second) == best && kv.first > v))) { best = std::fabs(kv.second); v = kv.first; }
      if (best == 0) continue;
      double c = r.co.at(v);
      work.erase(work.begin() + ri);
      for (auto& q : work) {
        auto it = q.co.find(v); if (it == q.co.end() || it->second == 0.0) { if (it != q.co.end()) q.co.erase(it); continue; }
        double f = it->second / c; q.co.erase(it);
        for (auto& kv : r.co) if (kv.first != v) q.co[kv.first] -= f * kv.second;
        q.lb -= f * r.lb; q.ub -= f * r.lb;
      }
      elimset.erase(v); elim.erase(std::find(elim.begin(), elim.end(), v));
      progress = true; break;
    }
  }
  std::vector<std::pair<Co, double>> ineqs;
  for (auto& r0 : work) {
    Co co; for (auto& kv : r0.co) if (std::fabs(kv.second) > 1e-12) co[kv.first] = kv.second;
    if (r0.ub < AINF) ineqs.push_back({co, r0.ub});
    if (r0.lb > -AINF) { Co n; for (auto& kv : co) n[kv.first] = -kv.second; ineqs.push_back({n, -r0.lb}); }
  }
  std::set<int> left(elim.begin(), elim.end());
  while (!left.empty()) {
    // greedy order: the variable whose elimination creates the fewest new rows (ties: smallest index)
    int v = -1; double bestcost = 0;
    for (int w : left) {
      double np = 0, nn = 0;
      for (auto& q : ineqs) { auto it = q.first.find(w); if (it == q.first.end()) continue; if (it->second > 1e-12) ++np; else if (it->second < -1e-12) ++nn; }
      double cost = np * nn - np - nn;
      if (v < 0 || cost < bestcost) { v = w; bestcost = cost; }
    }
    left.erase(v);
    std::vector<std::pair<Co, double>> pos, neg, rest;
    for (auto& q : ineqs) {
      auto it = q.first.find(v); double c = it == q.first.end() ? 0.0 : it->second;
      if (c > 1e-12) pos.push_back(q); else if (c < -1e-12) neg.push_back(q); else rest.push_back(q);
    }
    if (pos.size() * neg.size() + rest.size() > 6000) throw Undecided("FM blowup");
    for (auto& cp : pos) for (auto& cn : neg) {
      double ap = cp.first.at(v), an = -cn.first.at(v); Co co;
      for (auto& kv : cp.first) if (kv.first != v) co[kv.first] += kv.second / ap;
      for (auto& kv : cn.first) if (kv.first != v) co[kv.first] += kv.second / an;
      for (auto it = co.begin(); it != co.end();) { if (std::fabs(it->second) < 1e-11) it = co.erase(it); else ++it; }
      double rhs = cp.second / ap + cn.second / an;
      if (co.empty() && rhs >= 0) continue;                 // 0 <= nonnegative: redundant
      rest.push_back({co, rhs});
    }
    // drop rows with identical coefficients, keeping the tightest right-hand side
    std::map<Co, double> tight;
    for (auto& q : rest) { auto it = tight.find(q.first); if (it == tight.end()) tight[q.first] = q.second; else it->second = std::min(it->second, q.second); }
    ineqs.assign(tight.begin(), tight.end());
  }
  lo = -AINF; hi = AINF;
  for (auto& q : ineqs) {
    double cz = 0;
    for (auto& kv : q.first) {
      if (kv.first == Z) cz = kv.second;
      else if (std::fabs(kv.second) > 1e-9) throw Undecided("FM residual variables");
    }
    if (std::fabs(cz) <= 1e-12) { if (q.second < -TOL) return false; }
    else if (cz > 0) hi = std::min(hi, q.second / cz);
    else lo = std::max(lo, q.second / cz);
  }
  if (lo > hi + TOL) return false;
  return true;
}


// ---- two-phase dense simplex (Bland's rule) in exact rational arithmetic; same contract as fm_feasible --------
// Every double is converted exactly to a rational, so the verdict has no rounding error at all (a floating-point
// tableau returned wrong verdicts on rows mixing coefficients 1 and 1e6, e.g. PL end segments extended to +-1e6).
typedef mpq_class Num;
typedef std::vector<std::vector<Num>> Tab;
inline int simplex_min(Tab& T, std::vector<int>& basis, int ncols, const std::vector<char>& allowed) {
  const int m = (int)T.size() - 1;                      // returns 0 = optimal, 1 = unbounded
  for (int it = 0; it < 20000; ++it) {
    int e = -1;
    for (int j = 0; j < ncols; ++j) if (allowed[j] && sgn(T[m][j]) < 0) { e = j; break; }
    if (e < 0) return 0;
    int lr = -1; Num best;
    for (int i = 0; i < m; ++i) {
      if (sgn(T[i][e]) > 0) {
        Num ratio = T[i].back() / T[i][e];
        if (lr < 0 || ratio < best || (ratio == best && basis[i] < basis[lr])) { best = ratio; lr = i; }
      }
    }
    if (lr < 0) return 1;
    Num pv = T[lr][e]; for (auto& x : T[lr]) if (sgn(x) != 0) x /= pv;
    for (int i = 0; i <= m; ++i) if (i != lr && sgn(T[i][e]) != 0) {
      Num f = T[i][e];
      for (size_t j = 0; j < T[i].size(); ++j) if (sgn(T[lr][j]) != 0) T[i][j] -= f * T[lr][j];
    }
    basis[lr] = e;
  }
  throw Undecided("simplex iteration limit");
}

// Steps: (1) equality rows define a variable: substitute it (exact Gaussian step); (2) single-variable rows become
// bounds, variables are shifted to x' >= 0; (3) two-phase dense simplex with Bland's rule.  The objective is the
// variable z (index ZV) of the row oc.x - z = -o0.
inline bool lp_feasible_tol(const std::vector<Row>& rows, const std::vector<int>& elim, const Co* oc, double o0, double& lo, double& hi, double tol) {
  const int ZV = 1000000000;                         // sorts after every model variable
  typedef std::map<int, Num> QCo;
  struct QRow { QCo co; bool hl, hu; Num lb, ub; };
  const Num FT(tol);
  std::vector<QRow> work;
  for (auto& r : rows) {
    QRow q; for (auto& kv : r.co) if (kv.second != 0.0) q.co[kv.first] = Num(kv.second);
    q.hl = r.lb > -AINF; q.hu = r.ub < AINF; if (q.hl) q.lb = Num(r.lb); if (q.hu) q.ub = Num(r.ub);
    work.push_back(q);
  }
  std::set<int> freev(elim.begin(), elim.end());
  if (oc) { QRow q; for (auto& kv : *oc) if (kv.second != 0.0) q.co[kv.first] = Num(kv.second); q.co[ZV] = Num(-1);
    q.hl = q.hu = true; q.lb = q.ub = Num(-o0); work.push_back(q); freev.insert(ZV); }
  for (auto& q : work) for (auto& kv : q.co) if (!freev.count(kv.first)) throw Undecided("LP residual variables");
  if (tol == 0.0) {
    for (bool progress = true; progress;) {
      progress = false;
      for (size_t ri = 0; ri < work.size(); ++ri) {
        if (!(work[ri].hl && work[ri].hu && work[ri].lb == work[ri].ub)) continue;
        int v = 0; bool have = false;
        for (auto& kv : work[ri].co) if (kv.first != ZV) { v = kv.first; have = true; break; }   // smallest index
        if (!have) continue;
        QRow r = work[ri]; Num c = r.co[v];
        work.erase(work.begin() + ri);
        for (auto& q : work) {
          auto it = q.co.find(v); if (it == q.co.end()) continue;
          Num f = it->second / c; q.co.erase(it);
          for (auto& kv : r.co) if (kv.first != v) { Num nv = q.co[kv.first] - f * kv.second; if (sgn(nv) != 0) q.co[kv.first] = nv; else q.co.erase(kv.first); }
          if (q.hl) q.lb -= f * r.lb; if (q.hu) q.ub -= f * r.lb;
        }
        freev.erase(v); progress = true; break;
      }
    }
  }
  std::map<int, Num> L, U; std::vector<QRow> gen;
  for (auto& q : work) {
    if (q.co.empty()) { if ((q.hu && sgn(q.ub + FT) < 0) || (q.hl && sgn(q.lb - FT) > 0)) return false; continue; }
    if (q.co.size() == 1) {
      int v = q.co.begin()->first; Num c = q.co.begin()->second; bool pos = sgn(c) > 0;
      bool hlo = pos ? q.hl : q.hu, hhi = pos ? q.hu : q.hl;
      if (hlo) { Num x = (pos ? q.lb : q.ub) / c; if (!L.count(v) || x > L[v]) L[v] = x; }
      if (hhi) { Num x = (pos ? q.ub : q.lb) / c; if (!U.count(v) || x < U[v]) U[v] = x; }
    } else gen.push_back(q);
  }
  for (auto& kv : L) if (U.count(kv.first) && kv.second - FT > U[kv.first] + FT) return false;
  std::vector<int> vs(freev.begin(), freev.end());           // ascending; ZV last
  std::map<int, std::pair<int, int>> cols; int ncol = 0;     // kind 0 = lo-shift, 1 = up-shift, 2 = free (two columns)
  for (int v : vs) { if (L.count(v)) { cols[v] = {0, ncol}; ncol += 1; } else if (U.count(v)) { cols[v] = {1, ncol}; ncol += 1; } else { cols[v] = {2, ncol}; ncol += 2; } }
  std::vector<std::pair<std::vector<Num>, Num>> ineq;
  auto add = [&](const QCo& co, Num b, int sg) {
    std::vector<Num> a(ncol);
    for (auto& kv : co) { Num c = sg > 0 ? kv.second : Num(-kv.second); auto cj = cols[kv.first]; int j = cj.second;
      if (cj.first == 0) { a[j] += c; b -= c * (L[kv.first] - FT); }
      else if (cj.first == 1) { a[j] -= c; b -= c * (U[kv.first] + FT); }
      else { a[j] += c; a[j + 1] -= c; } }
    ineq.push_back({a, b});
  };
  for (auto& q : gen) { if (q.hu) add(q.co, q.ub + FT, 1); if (q.hl) add(q.co, -q.lb + FT, -1); }
  for (int v : vs) { auto cj = cols[v]; if (cj.first == 0 && U.count(v)) { std::vector<Num> a(ncol); a[cj.second] = 1; ineq.push_back({a, (U[v] + FT) - (L[v] - FT)}); } }
  const int m = (int)ineq.size();
  int nart = 0; for (auto& q : ineq) if (sgn(q.second) < 0) ++nart;
  const int width = ncol + m + nart;
  Tab T; std::vector<int> basis; int k = 0;
  for (int i = 0; i < m; ++i) {
    std::vector<Num> r(width + 1);
    for (int j = 0; j < ncol; ++j) r[j] = ineq[i].first[j];
    r[width] = ineq[i].second; r[ncol + i] = 1;
    if (sgn(ineq[i].second) < 0) { for (auto& x : r) x = -x; r[ncol + m + k] = 1; basis.push_back(ncol + m + k); ++k; }
    else basis.push_back(ncol + i);
    T.push_back(r);
  }
  std::vector<char> allowed(width, 1);
  if (nart) {
    std::vector<Num> cost(width + 1);
    for (int i = 0; i < m; ++i) if (basis[i] >= ncol + m) for (int j = 0; j <= width; ++j) if (j < ncol + m || j == width) cost[j] -= T[i][j];
    T.push_back(cost);
    simplex_min(T, basis, width, allowed);
    if (sgn(T[m].back()) != 0) return false;
    T.pop_back();
    for (int j = ncol + m; j < width; ++j) allowed[j] = 0;
    for (int i = 0; i < m; ++i) if (basis[i] >= ncol + m) {
      for (int j = 0; j < ncol + m; ++j) if (sgn(T[i][j]) != 0) {
        Num pv = T[i][j]; for (auto& x : T[i]) x /= pv;
        for (int i2 = 0; i2 < m; ++i2) if (i2 != i && sgn(T[i2][j]) != 0) { Num f = T[i2][j]; for (size_t q = 0; q < T[i2].size(); ++q) T[i2][q] -= f * T[i][q]; }
        basis[i] = j; break;
      }
    }
  }
  lo = -AINF; hi = AINF;
  if (!oc) return true;
  auto cz = cols[ZV];
  for (int pass = 0; pass < 2; ++pass) {
    int sg = pass == 0 ? 1 : -1;
    Tab T2 = T; std::vector<int> b2 = basis;
    std::vector<Num> c(width + 1); Num off = 0;
    if (cz.first == 0) { c[cz.second] = sg; off = L[ZV]; } else if (cz.first == 1) { c[cz.second] = -sg; off = U[ZV]; } else { c[cz.second] = sg; c[cz.second + 1] = -sg; }
    for (int i = 0; i < m; ++i) if (sgn(c[b2[i]]) != 0) { Num f = c[b2[i]]; for (size_t q = 0; q < c.size(); ++q) c[q] -= f * T2[i][q]; }
    T2.push_back(c);
    int st = simplex_min(T2, b2, width, allowed);
    if (st == 0) { Num val = Num(sg) * Num(-T2[m].back()) + off; if (pass == 0) lo = val.get_d(); else hi = val.get_d(); }
  }
  return true;
}

// exact rows first; only if they have no solution, every right-hand side is relaxed by TOL (noise in the data)
inline bool lp_feasible(const std::vector<Row>& rows, const std::vector<int>& elim, const Co* oc, double o0, double& lo, double& hi) {
  if (lp_feasible_tol(rows, elim, oc, o0, lo, hi, 0.0)) return true;
  return lp_feasible_tol(rows, elim, oc, o0, lo, hi, TOL);
}

struct LPFMDisagree : std::runtime_error { explicit LPFMDisagree(const std::string& s) : std::runtime_error(s) {} };

// Simplex decides; Fourier-Motzkin is run as an independent second opinion on small systems.
inline bool lin_feasible(const std::vector<Row>& rows, const std::vector<int>& elim, const Co* oc, double o0, double& lo, double& hi) {
  bool ok = lp_feasible(rows, elim, oc, o0, lo, hi);
  std::set<int> es(elim.begin(), elim.end());
  if (rows.size() <= 14 && es.size() <= 6) {
    double lo2, hi2; bool ok2;
    try { ok2 = fm_feasible(rows, elim, oc, o0, lo2, hi2); } catch (Undecided&) { return ok; }
    auto close = [](double a, double b) { return a == b || std::fabs(a - b) <= 1e-5 * std::max(1.0, std::max(std::fabs(a), std::fabs(b))); };
    if (ok != ok2 || (ok && oc && !(close(lo, lo2) && close(hi, hi2)))) throw LPFMDisagree("LP vs FM");
  }
  return ok;
}

struct SearchOut { bool found = false; bool has_best = false; double best = 0; std::vector<double> wit; std::vector<char> wit_known; };

struct Delivered {
  struct Var { double lb, ub; int ty; };
  std::vector<Var> vars; std::vector<Con> cons; int norig = 0;
  bool has_obj = false; int sense = 0; Body obj;
  long long budget = 0;

  Delivered(const std::string& vars_json, const std::vector<std::string>& objs_json,
            const std::vector<std::string>& cons_json, int norig_) : norig(norig_) {
    JP V = jparse(vars_json);
    for (auto& e : V->arr) vars.push_back({e->at(0).num, e->at(1).num, (int)e->at(2).num});
    for (auto& o : objs_json) {
      if (o.empty()) continue;
      JP O = jparse(o);
      if (!has_obj) { has_obj = true; sense = (int)(*O)["sense"].num;
        obj.lc = (*O)["lin"]["coefs"].dvec(); obj.lv = (*O)["lin"]["vars"].ivec();
        obj.qc = (*O)["qp"]["coefs"].dvec(); obj.q1 = (*O)["qp"]["vars1"].ivec(); obj.q2 = (*O)["qp"]["vars2"].ivec(); }
    }
    for (auto& s : cons_json) {
      JP C = jparse(s); Con c; c.tn = (*C)["type"].str; const JV& d = (*C)["data"];
      const std::string& tn = c.tn;
      if (!tn.compare(0, 19, "AlgebraicConstraint")) { c.k = ALG; c.body = body_of(d["body"]); rng_of(d["rhs_or_range"], c.lb, c.ub); }
      else if (!tn.compare(0, 19, "IndicatorConstraint")) { c.k = IND; c.bin_var = (int)d["bin_var"].num; c.bin_val = (int)d["bin_val"].num;
        c.body = body_of(d["con"]["body"]); rng_of(d["con"]["rhs_or_range"], c.lb, c.ub); }
      else if (!tn.compare(0, 11, "Conditional")) { c.k = COND; c.res = (int)d["res_var"].num; c.ck = cond_kind(tn);
        c.body = body_of(d["con"]["body"]); rng_of(d["con"]["rhs_or_range"], c.lb, c.ub); }
      else if (!tn.compare(0, 3, "SOS")) { c.k = SOS; c.sos_type = (int)d["SOS_type"].num; c.args = d["vars"].ivec(); c.weights = d["weights"].dvec(); }
      else if (!tn.compare(0, 25, "ComplementarityConstraint")) { c.k = COMPL; c.body = body_of(d["expr"]["body"]);
        c.const_term = d["expr"]["const_term"].num; c.compl_var = (int)d["compl_var"].num; }
      else if (tn == "LinearFunctionalConstraint" || tn == "QuadraticFunctionalConstraint") {
        c.k = tn[0] == 'L' ? LFC : QFC; c.res = (int)d["res_var"].num; c.body = body_of(d["expr"]["body"]); c.const_term = d["expr"]["const_term"].num; }
      else if (tn == "QuadraticConeConstraint" || tn == "RotatedQuadraticConeConstraint") {
        c.k = tn[0] == 'Q' ? CONE : RCONE; c.args = d["args"].ivec(); c.params = d["params"].dvec(); }
      else if (tn == "UnaryEncodingConstraint") c.k = DUMMY;
      else if (is_func_type(tn)) { c.k = FUNC; c.res = (int)d["res_var"].num; c.args = d["args"].ivec();
        if (d.has("params")) { const JV& P = d["params"];
          if (P.k == JV::OBJ) { c.plx = P["pl_x"].dvec(); c.ply = P["pl_y"].dvec(); } else c.params = P.dvec(); } }
      else c.k = OTHER;
      cons.push_back(c);
    }
  }
  int nv() const { return (int)vars.size(); }

  // (const, coefs over unknowns); throws Undecided for a quadratic term in two unknowns
  static double lin_of(const Body& b, const Assign& a, Co& co) {
    double c = 0; co.clear();
    for (size_t i = 0; i < b.lv.size(); ++i) { int v = b.lv[i]; if (a.has(v)) c += b.lc[i] * a.v[v]; else co[v] += b.lc[i]; }
    for (size_t i = 0; i < b.q1.size(); ++i) {
      int v1 = b.q1[i], v2 = b.q2[i]; double q = b.qc[i];
      if (a.has(v1) && a.has(v2)) c += q * a.v[v1] * a.v[v2];
      else if (a.has(v1)) co[v2] += q * a.v[v1];
      else if (a.has(v2)) co[v1] += q * a.v[v2];
      else throw Undecided("quadratic term in two unknowns");
    }
    for (auto it = co.begin(); it != co.end();) { if (it->second == 0.0) it = co.erase(it); else ++it; }
    return c;
  }
  bool var_ok(int i, double val) const {
    const Var& v = vars[i];
    if (val < v.lb - TOL * std::max(1.0, std::fabs(v.lb)) || val > v.ub + TOL * std::max(1.0, std::fabs(v.ub))) return false;
    if (v.ty == 1 && std::fabs(val - std::round(val)) > TOL) return false;
    return true;
  }
  bool args_known(const Con& c, const Assign& a) const { for (int v : c.args) if (!a.has(v)) return false; return true; }
  std::vector<double> argvals(const Con& c, const Assign& a) const { std::vector<double> x; for (int v : c.args) x.push_back(a.v[v]); return x; }

  bool propagate(Assign& a) const {
    bool changed = true; Co co;
    while (changed) {
      changed = false;
      for (auto& c : cons) {
        if (c.k == FUNC) {
          if (c.res >= 0 && !a.has(c.res) && args_known(c, a)) {
            try { a.set(c.res, func_value(c, argvals(c, a))); } catch (FuncUndefined&) { return false; }
            changed = true;
          }
        } else if (c.k == LFC || c.k == QFC) {
          if (c.res >= 0 && !a.has(c.res)) {
            double cst; try { cst = lin_of(c.body, a, co); } catch (Undecided&) { continue; }
            if (co.empty()) { a.set(c.res, cst + c.const_term); changed = true; }
          }
        } else if (c.k == ALG && c.lb == c.ub) {
          double cst; try { cst = lin_of(c.body, a, co); } catch (Undecided&) { continue; }
          if (co.size() == 1 && std::fabs(co.begin()->second) > 1e-12) {
            a.set(co.begin()->first, (c.lb - cst) / co.begin()->second); changed = true;
          }
        }
      }
    }
    return true;
  }
  static bool cond_truth(int ck, double cst, double rhs) {
    switch (ck) { case 0: return std::fabs(cst - rhs) <= TOL; case 1: return cst >= rhs - TOL; case 2: return cst > rhs + TOL;
      case -1: return cst <= rhs + TOL; default: return cst < rhs - TOL; }
  }
  bool check_known(const Assign& a) const {
    for (int i = 0; i < nv(); ++i) if (a.has(i) && !var_ok(i, a.v[i])) return false;
    Co co;
    for (auto& c : cons) {
      switch (c.k) {
      case ALG: {
        double cst; try { cst = lin_of(c.body, a, co); } catch (Undecided&) { break; }
        if (co.empty() && (cst < c.lb - TOL * std::max(1.0, std::fabs(c.lb)) || cst > c.ub + TOL * std::max(1.0, std::fabs(c.ub)))) return false;
        break; }
      case IND: {
        if (a.has(c.bin_var) && (int)std::lround(a.v[c.bin_var]) == c.bin_val) {
          double cst; try { cst = lin_of(c.body, a, co); } catch (Undecided&) { break; }
          if (co.empty() && (cst < c.lb - TOL || cst > c.ub + TOL)) return false;
        }
        break; }
      case COND: {
        double cst; try { cst = lin_of(c.body, a, co); } catch (Undecided&) { break; }
        if (co.empty() && (c.res < 0 || a.has(c.res))) {
          double rhs = c.lb == -AINF ? c.ub : c.lb;
          bool truth = cond_truth(c.ck, cst, rhs);
          if (c.res < 0) { if (!truth) return false; }
          else if ((a.v[c.res] >= 0.5) != truth) return false;
        }
        break; }
      case CONE: case RCONE: {
        if (args_known(c, a)) {
          std::vector<double> xs; for (size_t i = 0; i < c.args.size(); ++i) xs.push_back(c.params[i] * a.v[c.args[i]]);
          double ss = 0;
          if (c.k == CONE) { for (size_t i = 1; i < xs.size(); ++i) ss += xs[i] * xs[i]; if (xs[0] < std::sqrt(ss) - TOL) return false; }
          else { for (size_t i = 2; i < xs.size(); ++i) ss += xs[i] * xs[i];
            if (xs[0] < -TOL || xs[1] < -TOL || 2 * xs[0] * xs[1] < ss - TOL) return false; }
        }
        break; }
      case FUNC: {
        if (args_known(c, a)) {
          double val; try { val = func_value(c, argvals(c, a)); } catch (FuncUndefined&) { return false; }
          if (c.res < 0) { if (val < 0.5) return false; }
          else if (a.has(c.res) && std::fabs(val - a.v[c.res]) > TOL * std::max(1.0, std::fabs(val))) return false;
        }
        break; }
      case LFC: case QFC: {
        double cst; try { cst = lin_of(c.body, a, co); } catch (Undecided&) { break; }
        if (c.res >= 0 && a.has(c.res) && co.empty()) {
          double val = cst + c.const_term;
          if (std::fabs(val - a.v[c.res]) > TOL * std::max(1.0, std::fabs(val))) return false;
        }
        break; }
      case COMPL: {
        double cst; try { cst = lin_of(c.body, a, co); } catch (Undecided&) { break; }
        if (co.empty() && a.has(c.compl_var)) {
          double e = cst + c.const_term; const Var& v = vars[c.compl_var]; double x = a.v[c.compl_var];
          bool at_lb = v.lb > -1e300 && std::fabs(x - v.lb) <= TOL, at_ub = v.ub < 1e300 && std::fabs(x - v.ub) <= TOL;
          bool ok = (at_lb && e >= -TOL) || (at_ub && e <= TOL) || std::fabs(e) <= TOL;
          if (!ok) return false;
        }
        break; }
      case SOS: case DUMMY: break;
      default: throw Undecided("constraint type " + c.tn);
      }
    }
    return true;
  }

  void leaf(const Assign& a, bool want_obj, SearchOut& out) const {
    std::vector<int> unknown; for (int i = 0; i < nv(); ++i) if (!a.has(i)) unknown.push_back(i);
    std::vector<Row> rows; std::vector<std::vector<std::vector<Row>>> disj; Co co;   // disj: alternatives, each a list of rows
    for (int i : unknown) { Co c1; c1[i] = 1.0; rows.push_back({c1, vars[i].lb > -1e300 ? vars[i].lb : -AINF, vars[i].ub < 1e300 ? vars[i].ub : AINF}); }
    for (auto& c : cons) {
      switch (c.k) {
      case ALG: { double cst = lin_of(c.body, a, co); if (!co.empty()) rows.push_back({co, c.lb - cst, c.ub - cst}); break; }
      case IND: {
        if (!a.has(c.bin_var)) throw Undecided("indicator with non-enumerated binary");
        if ((int)std::lround(a.v[c.bin_var]) == c.bin_val) { double cst = lin_of(c.body, a, co); if (!co.empty()) rows.push_back({co, c.lb - cst, c.ub - cst}); }
        break; }
      case COND: {
        double cst = lin_of(c.body, a, co);
        if (!co.empty()) {
          if (c.res >= 0 && !a.has(c.res)) throw Undecided("conditional result continuous unknown");
          bool val = c.res < 0 ? true : (a.v[c.res] >= 0.5);
          int ck = c.ck; bool none = false;
          if (!val) { switch (c.ck) { case 0: none = true; break; case 1: ck = -2; break; case 2: ck = -1; break; case -1: ck = 2; break; default: ck = 1; } }
          double rhs = (c.lb == -AINF ? c.ub : c.lb) - cst;
          if (none) { disj.push_back({{Row{co, rhs + EPS_STRICT, AINF}}, {Row{co, -AINF, rhs - EPS_STRICT}}}); break; }
          if (ck == 0) rows.push_back({co, rhs, rhs}); else if (ck == 1) rows.push_back({co, rhs, AINF});
          else if (ck == -1) rows.push_back({co, -AINF, rhs}); else if (ck == 2) rows.push_back({co, rhs + EPS_STRICT, AINF});
          else rows.push_back({co, -AINF, rhs - EPS_STRICT});
        }
        break; }
      case SOS: {
        // members in reference order; an alternative = an admissible support (SOS1: one position, SOS2: two
        // adjacent positions); members outside the support are 0 (checked if known, a row x=0 if unknown)
        std::vector<int> order(c.args.size()); for (size_t i = 0; i < order.size(); ++i) order[i] = (int)i;
        std::stable_sort(order.begin(), order.end(), [&](int i, int j) { return c.weights[i] < c.weights[j]; });
        int n = (int)order.size(), width = c.sos_type == 1 ? 1 : 2;
        std::vector<std::vector<Row>> alts;
        for (int s0 = 0; s0 + width <= std::max(n, width); ++s0) {
          std::vector<Row> alt; bool ok = true;
          for (int pos = 0; pos < n && ok; ++pos) {
            if (pos >= s0 && pos < s0 + width) continue;
            int v = c.args[order[pos]];
            if (a.has(v)) { if (std::fabs(a.v[v]) > TOL) ok = false; }
            else { Co c1; c1[v] = 1.0; alt.push_back(Row{c1, 0.0, 0.0}); }
          }
          if (ok) alts.push_back(alt);
          if (n <= width) break;
        }
        if (alts.empty()) return;
        bool trivial = false; for (auto& al : alts) if (al.empty()) trivial = true;
        if (!trivial) disj.push_back(alts);
        break; }
      case FUNC: {
        if ((c.res >= 0 && !a.has(c.res)) || !args_known(c, a)) throw Undecided("functional over unknown continuous: " + c.tn);
        break; }
      case LFC: case QFC: {
        double cst = lin_of(c.body, a, co) + c.const_term;
        if (c.res < 0) break;
        if (!co.empty() || !a.has(c.res)) {
          if (a.has(c.res)) cst -= a.v[c.res]; else co[c.res] -= 1.0;
          rows.push_back({co, -cst, -cst});
        }
        break; }
      case CONE: case RCONE: if (!args_known(c, a)) throw Undecided("cone over unknown"); break;
      case COMPL: { lin_of(c.body, a, co); if (!co.empty() || !a.has(c.compl_var)) throw Undecided("complementarity over unknown"); break; }
      default: break;
      }
    }
    Co oc; double o0 = 0; bool use_obj = want_obj && has_obj;
    if (use_obj) o0 = lin_of(obj, a, oc);
    size_t nalt = 1; for (auto& d : disj) { nalt *= d.size(); if (nalt > 4096) throw Undecided("too many disjunctions"); }
    for (size_t k = 0; k < nalt; ++k) {
      std::vector<Row> rr = rows; size_t q = k;
      for (auto& d : disj) { for (auto& r1 : d[q % d.size()]) rr.push_back(r1); q /= d.size(); }
      double lo, hi;
      if (lin_feasible(rr, unknown, use_obj ? &oc : nullptr, o0, lo, hi)) {
        out.found = true;
        if (use_obj) { double val = sense == 1 ? hi : lo;
          if (!out.has_best || (sense == 1 && val > out.best) || (sense != 1 && val < out.best)) { out.best = val; out.has_best = true; } }
        if (out.wit.empty()) { out.wit = a.v; out.wit_known = a.known; }
        if (!use_obj) break;
      }
    }
  }

  // bounds of the unknown variables implied by the declared bounds and the linear rows (ALG, LFC) under the
  // partial assignment a; only consequences are derived, so restricting a search to them loses no solution
  void implied_bounds(const Assign& a, std::vector<double>& L, std::vector<double>& U) const {
    L.resize(nv()); U.resize(nv());
    for (int i = 0; i < nv(); ++i) { L[i] = vars[i].lb > -1e300 ? vars[i].lb : -AINF; U[i] = vars[i].ub < 1e300 ? vars[i].ub : AINF; }
    std::vector<Row> rows; Co co;
    for (auto& c : cons) {
      try {
        if (c.k == ALG) { double cst = lin_of(c.body, a, co); if (!co.empty()) rows.push_back({co, c.lb - cst, c.ub - cst}); }
        else if ((c.k == LFC || c.k == QFC) && c.res >= 0) {
          double cst = lin_of(c.body, a, co) + c.const_term;
          if (a.has(c.res)) cst -= a.v[c.res]; else co[c.res] -= 1.0;
          if (!co.empty()) rows.push_back({co, -cst, -cst});
        }
      } catch (Undecided&) { }
    }
    for (int round = 0; round < 20; ++round) {
      bool changed = false;
      for (auto& r : rows) for (auto& kj : r.co) {
        int j = kj.first; double cj = kj.second; if (std::fabs(cj) < 1e-12) continue;
        double smin = 0, smax = 0;                      // range of the other terms
        for (auto& ki : r.co) if (ki.first != j) {
          double c = ki.second, l = L[ki.first], u = U[ki.first];
          smin += c > 0 ? c * l : c * u; smax += c > 0 ? c * u : c * l;
        }
        // r.lb - smax <= cj*xj <= r.ub - smin
        double lo = r.lb - smax, hi = r.ub - smin;
        if (std::isnan(lo)) lo = -AINF; if (std::isnan(hi)) hi = AINF;
        double nl = cj > 0 ? lo / cj : hi / cj, nu = cj > 0 ? hi / cj : lo / cj;
        if (vars[j].ty == 1) { if (nl > -AINF) nl = std::ceil(nl - 1e-7); if (nu < AINF) nu = std::floor(nu + 1e-7); }
        if (nl > L[j] + 1e-9) { L[j] = nl; changed = true; }
        if (nu < U[j] - 1e-9) { U[j] = nu; changed = true; }
      }
      if (!changed) break;
    }
  }

  void dfs(Assign a, bool want_obj, SearchOut& out) {
    if (--budget < 0) throw Undecided("search budget");
    if (!propagate(a)) return;
    if (!check_known(a)) return;
    int best = -1; double bw = 0;
    for (int i = 0; i < nv(); ++i) if (!a.has(i) && vars[i].ty == 1) { double w = vars[i].ub - vars[i].lb; if (best < 0 || w < bw) { best = i; bw = w; } }
    if (best < 0) { leaf(a, want_obj, out); return; }
    double blo = vars[best].lb, bhi = vars[best].ub;
    if (bw > 64) {
      // declared domain too wide to enumerate: use bounds implied by the linear rows (interval propagation)
      std::vector<double> L, U; implied_bounds(a, L, U);
      best = -1;
      for (int i = 0; i < nv(); ++i) if (!a.has(i) && vars[i].ty == 1) { double w = U[i] - L[i]; if (best < 0 || w < bw) { best = i; bw = w; } }
      if (best < 0 || !(bw <= 64)) throw Undecided("large integer aux domain");
      blo = L[best]; bhi = U[best];
      if (blo > bhi + 1e-9) return;
    }
    int lo = (int)std::ceil(blo - 1e-9), hi = (int)std::floor(bhi + 1e-9);
    for (int v = lo; v <= hi; ++v) {
      Assign a2 = a; a2.set(best, v); dfs(a2, want_obj, out);
      if (out.found && !(want_obj && has_obj)) return;
    }
  }
  SearchOut search(const std::vector<double>& p, bool want_obj) {
    SearchOut out; Assign a; a.v.assign(nv(), 0.0); a.known.assign(nv(), 0);
    if ((int)p.size() != norig || norig > nv()) throw Undecided("dimension mismatch");
    for (int i = 0; i < norig; ++i) { if (!var_ok(i, p[i])) return out; a.set(i, p[i]); }
    for (int i = norig; i < nv(); ++i) if (vars[i].lb == vars[i].ub) a.set(i, vars[i].lb);
    budget = 200000;
    dfs(a, want_obj, out);
    return out;
  }
};

}  // namespace ax
