// Independent reference codec for AMPL .sol files (text and binary).
//
// Written from the format description ("Hooking Your Solver to AMPL", the ASL conventions quoted
// in the comments of sol-reader2.hpp / sol.h), NOT from the library's code paths:
//
//   text:    message lines | empty line | [Options | nopt | opt.. | ncons ndual nvars nprimal
//            | [vbtol]] | duals | primals | [objno <objno> <solve_code>] | suffix blocks
//            suffix block: "suffix kind n namelen tablen tablines" | name | table lines | "idx val"
//   binary:  Fortran-unformatted style records  <len:int32> payload <len:int32>
//            "binary" | one record per message line | empty record | [Options record] |
//            duals | primals | [objno record] | suffix records ("\nSuffix\n" kind n namelen
//            tablen, name\0, table\0, (idx,val)...)
//
// The codec builds a *structured document* (lines/tokens, records/fields) so that a check can
// deviate single tokens, lines, record lengths before rendering the bytes, and it contains a
// reference parser used as a second opinion on files the library accepted.
#pragma once
#include <cstdint>
#include <cstdio>
#include <cstdlib>
#include <cstring>
#include <cmath>
#include <string>
#include <vector>
#include <utility>

namespace solref {

struct Suffix {
  int kind = 0;                 // bits 0-1: 0 var, 1 con, 2 obj, 3 problem; 4: real-valued; 8: iodecl
  std::string name;
  std::string table;            // lines separated by '\n', no trailing newline; empty = no table
  std::vector<std::pair<int, double>> values;   // sparse entries in file order
  bool is_real() const { return (kind & 4) != 0; }
};

struct Sol {
  std::string message;          // text handed to the writer
  bool options_section = true;  // "Options" section present
  std::vector<long> options;    // echoed AMPL options
  bool vbtol_form = false;      // ASL form: declared count = n+2, options[1]==3, vbtol after the counts
  double vbtol = 0;
  int ncons = 0, nvars = 0;     // problem sizes echoed in the counts lines
  std::vector<double> dual, primal;   // empty = absent
  bool has_objno = true;
  int objno = 0;                // value in the file (driver's objno-1)
  int solve_code = 0;
  std::vector<Suffix> suffixes;
  // mp::WriteSolFile prints "Options" but no option count when there are no options
  bool mp_zero_options_quirk = true;
};

// ---------------------------------------------------------------------------- number formatting
inline std::string fmt_g16(double v) {
  char b[64];
  if (std::isnan(v)) return "nan";
  if (std::isinf(v)) return v < 0 ? "-inf" : "inf";
  std::snprintf(b, sizeof b, "%.16g", v);
  return b;
}

// ---------------------------------------------------------------------------- text document
struct Tok { std::string s; bool numeric; };
struct Line { std::vector<Tok> t; std::string role; };
struct TextDoc {
  std::vector<Line> lines;
  std::string render() const {
    std::string o;
    for (auto& l : lines) {
      for (size_t i = 0; i < l.t.size(); ++i) { if (i) o += ' '; o += l.t[i].s; }
      o += '\n';
    }
    return o;
  }
};

inline std::vector<std::string> split_lines(const std::string& s) {
  std::vector<std::string> v; size_t p = 0;
  for (;;) { size_t q = s.find('\n', p); if (q == std::string::npos) { v.push_back(s.substr(p)); break; }
             v.push_back(s.substr(p, q - p)); p = q + 1; }
  return v;
}
inline int count_table_lines(const std::string& t) {
  if (t.empty()) return 0; int n = 1; for (char c : t) if (c == '\n') ++n; return n;
}

// message -> lines as they must appear in a .sol (an empty line is the reserved terminator, so an
// empty line inside the message is written as a single space; the last piece is written as is)
inline std::vector<std::string> message_file_lines(const std::string& msg) {
  std::vector<std::string> p = split_lines(msg), o;
  for (size_t i = 0; i < p.size(); ++i) o.push_back(p[i].empty() && i + 1 < p.size() ? " " : p[i]);
  return o;
}

inline TextDoc build_text(const Sol& s) {
  TextDoc d;
  auto raw = [&](const std::string& x, const char* role) { d.lines.push_back({{{x, false}}, role}); };
  auto num = [&](const std::string& x, const char* role) { d.lines.push_back({{{x, true}}, role}); };
  for (auto& l : message_file_lines(s.message)) raw(l, "msg");
  raw("", "msgend");
  if (s.options_section) {
    raw("Options", "options");
    long n = (long)s.options.size() + (s.vbtol_form ? 2 : 0);
    if (!(s.mp_zero_options_quirk && n == 0)) num(std::to_string(n), "nopts");
    for (long o : s.options) num(std::to_string(o), "opt");
    num(std::to_string(s.ncons), "ncons"); num(std::to_string((long)s.dual.size()), "ndual");
    num(std::to_string(s.nvars), "nvars"); num(std::to_string((long)s.primal.size()), "nprimal");
    if (s.vbtol_form) num(fmt_g16(s.vbtol), "vbtol");
  }
  for (double v : s.dual) num(fmt_g16(v), "dual");
  for (double v : s.primal) num(fmt_g16(v), "primal");
  if (s.has_objno)
    d.lines.push_back({{{"objno", false}, {std::to_string(s.objno), true}, {std::to_string(s.solve_code), true}}, "objno"});
  for (auto& f : s.suffixes) {
    long tablen = f.table.empty() ? 0 : (long)f.table.size() + 1;
    d.lines.push_back({{{"suffix", false}, {std::to_string(f.kind), true}, {std::to_string((long)f.values.size()), true},
                        {std::to_string((long)f.name.size() + 1), true}, {std::to_string(tablen), true},
                        {std::to_string(count_table_lines(f.table)), true}}, "sufhead"});
    raw(f.name, "sufname");
    if (tablen) for (auto& tl : split_lines(f.table)) raw(tl, "suftable");
    for (auto& v : f.values)
      d.lines.push_back({{{std::to_string(v.first), true},
                          {f.is_real() ? fmt_g16(v.second) : std::to_string((long)v.second), true}}, "sufval"});
  }
  return d;
}
inline std::string encode_text(const Sol& s) { return build_text(s).render(); }

// ---------------------------------------------------------------------------- binary document
struct Field {
  enum Type { I32, F64, RAW } type; int32_t i = 0; double d = 0; std::string raw; std::string role;
  static Field I(int32_t v, const char* r) { Field f; f.type = I32; f.i = v; f.role = r; return f; }
  static Field D(double v, const char* r) { Field f; f.type = F64; f.d = v; f.role = r; return f; }
  static Field R(const std::string& v, const char* r) { Field f; f.type = RAW; f.raw = v; f.role = r; return f; }
  std::string bytes() const {
    if (type == I32) return std::string((const char*)&i, 4);
    if (type == F64) return std::string((const char*)&d, 8);
    return raw;
  }
};
struct Record {
  std::vector<Field> f; std::string role;
  bool open_override = false, close_override = false, no_close = false;
  uint32_t open_len = 0, close_len = 0;
  std::string payload() const { std::string o; for (auto& x : f) o += x.bytes(); return o; }
  std::string render() const {
    std::string p = payload(); uint32_t lo = open_override ? open_len : (uint32_t)p.size();
    uint32_t lc = close_override ? close_len : (uint32_t)p.size();
    std::string o((const char*)&lo, 4); o += p; if (!no_close) o += std::string((const char*)&lc, 4);
    return o;
  }
};
struct BinDoc {
  std::vector<Record> recs;
  std::string render() const { std::string o; for (auto& r : recs) o += r.render(); return o; }
};

inline BinDoc build_binary(const Sol& s) {
  BinDoc d;
  auto rec = [&](const char* role) -> Record& { d.recs.push_back(Record()); d.recs.back().role = role; return d.recs.back(); };
  rec("magic").f.push_back(Field::R("binary", "magic"));
  std::vector<std::string> ml = message_file_lines(s.message);
  if (!ml.empty() && ml.back().empty()) ml.pop_back();     // an empty record is the terminator
  for (auto& l : ml) rec("msg").f.push_back(Field::R(l.empty() ? " " : l, "msg"));
  rec("msgend");
  if (s.options_section) {
    Record& r = rec("options");
    r.f.push_back(Field::R("Options", "optmagic"));
    r.f.push_back(Field::I((int32_t)s.options.size() + (s.vbtol_form ? 2 : 0), "nopts"));
    for (long o : s.options) r.f.push_back(Field::I((int32_t)o, "opt"));
    r.f.push_back(Field::I(s.ncons, "ncons")); r.f.push_back(Field::I((int32_t)s.dual.size(), "ndual"));
    r.f.push_back(Field::I(s.nvars, "nvars")); r.f.push_back(Field::I((int32_t)s.primal.size(), "nprimal"));
    if (s.vbtol_form) r.f.push_back(Field::D(s.vbtol, "vbtol"));
  }
  { Record& r = rec("duals"); for (double v : s.dual) r.f.push_back(Field::D(v, "dual")); }
  { Record& r = rec("primals"); for (double v : s.primal) r.f.push_back(Field::D(v, "primal")); }
  if (s.has_objno) { Record& r = rec("objno"); r.f.push_back(Field::I(s.objno, "objno")); r.f.push_back(Field::I(s.solve_code, "code")); }
  for (auto& f : s.suffixes) {
    Record& r = rec("suffix");
    r.f.push_back(Field::R("\nSuffix\n", "sufmagic"));
    r.f.push_back(Field::I(f.kind, "kind")); r.f.push_back(Field::I((int32_t)f.values.size(), "n"));
    r.f.push_back(Field::I((int32_t)f.name.size() + 1, "namelen"));
    r.f.push_back(Field::I(f.table.empty() ? 0 : (int32_t)f.table.size() + 1, "tablen"));
    r.f.push_back(Field::R(f.name + std::string(1, '\0'), "sufname"));
    if (!f.table.empty()) r.f.push_back(Field::R(f.table + std::string(1, '\0'), "suftable"));
    for (auto& v : f.values) {
      r.f.push_back(Field::I(v.first, "idx"));
      if (f.is_real()) r.f.push_back(Field::D(v.second, "val")); else r.f.push_back(Field::I((int32_t)v.second, "val"));
    }
  }
  return d;
}
inline std::string encode_binary(const Sol& s) { return build_binary(s).render(); }

// ---------------------------------------------------------------------------- parsed form
struct Parsed {
  bool ok = false; std::string err;
  bool has_message = false; std::string message; int nbs = 0;   // message: lines each followed by '\n'
  bool has_options = false; std::vector<long> options_raw;      // [n, opts.., ncons, ndual, nvars, nprimal]
  bool has_vbtol = false; double vbtol = 0;
  bool has_dual = false, has_primal = false; std::vector<double> dual, primal;
  bool has_objno = false; int objno = 0; bool has_code = false; int solve_code = 0;
  std::vector<Suffix> suffixes;
};

// whole-token number parsing for the reference parser: the entire line must be one number
inline bool ref_parse_double(const std::string& s, double& v) {
  if (s.empty()) return false; char* e; v = std::strtod(s.c_str(), &e);
  if (e == s.c_str()) return false; while (*e == ' ' || *e == '\r') ++e; return *e == 0;
}
inline bool ref_parse_long(const std::string& s, long& v) {
  if (s.empty()) return false; char* e; v = std::strtol(s.c_str(), &e, 10);
  if (e == s.c_str()) return false; while (*e == ' ' || *e == '\r') ++e; return *e == 0;
}

// Reference text parser. nvars/ncons: declared problem sizes (needed when there is no Options
// section).  Strict: any irregularity is an error (it is only a second opinion on *valid* files).
inline Parsed parse_text(const std::string& bytes, int nvars, int ncons) {
  Parsed p; std::vector<std::string> L = split_lines(bytes);
  if (!L.empty() && L.back().empty()) L.pop_back();           // text after the final '\n'
  for (auto& l : L) if (!l.empty() && l.back() == '\r') l.pop_back();
  size_t i = 0;
  auto fail = [&](const std::string& e) { p.ok = false; p.err = e; return p; };
  for (;; ++i) {
    if (i >= L.size()) return fail("eof in message");
    if (L[i].empty()) { ++i; break; }
    p.message += L[i]; p.message += '\n'; p.has_message = true;
  }
  while (i < L.size() && L[i].empty()) ++i;
  int nd = ncons, np = nvars;
  if (i < L.size() && L[i] == "Options") {
    ++i; long n;
    if (i >= L.size() || !ref_parse_long(L[i], n)) return fail("bad option count");
    if (n < 3 || n > 9) return fail("option count outside 3..9");
    std::vector<long> o(1, n);
    // ASL: if the second option is 3 the declared count includes two extra slots and vbtol follows
    long nread = n; bool vb = false;
    if (i + 2 < L.size()) { long o2; if (ref_parse_long(L[i + 2], o2) && o2 == 3) { vb = true; nread = n - 2; } }
    ++i;
    for (long k = 0; k < nread + 4; ++k, ++i) {
      long v; if (i >= L.size() || !ref_parse_long(L[i], v)) return fail("bad option line");
      o.push_back(v);
    }
    if (vb) { if (i >= L.size() || !ref_parse_double(L[i], p.vbtol)) return fail("bad vbtol"); ++i; p.has_vbtol = true; }
    p.has_options = true; p.options_raw = o;
    nd = (int)o[o.size() - 3]; np = (int)o[o.size() - 1];
    if (nd < 0 || nd > ncons || np < 0 || np > nvars) return fail("counts exceed problem size");
  }
  for (int k = 0; k < nd; ++k, ++i) { double v; if (i >= L.size() || !ref_parse_double(L[i], v)) return fail("bad dual"); p.dual.push_back(v); }
  p.has_dual = nd > 0;
  for (int k = 0; k < np; ++k, ++i) { double v; if (i >= L.size() || !ref_parse_double(L[i], v)) return fail("bad primal"); p.primal.push_back(v); }
  p.has_primal = np > 0;
  if (i < L.size()) {
    if (L[i].compare(0, 6, "objno ") != 0) return fail("expected objno");
    const char* s = L[i].c_str() + 6; char* e; long a = std::strtol(s, &e, 10);
    if (e == s) return fail("bad objno"); p.has_objno = true; p.objno = (int)a;
    s = e; long b = std::strtol(s, &e, 10);
    if (e != s) { p.has_code = true; p.solve_code = (int)b; }
    ++i;
  }
  while (i < L.size()) {
    Suffix f; int n, namelen, tablen, tablines;
    if (std::sscanf(L[i].c_str(), "suffix %d %d %d %d %d", &f.kind, &n, &namelen, &tablen, &tablines) != 5) return fail("bad suffix header");
    ++i; if (i >= L.size()) return fail("eof in suffix name");
    if ((int)L[i].size() != namelen - 1) return fail("suffix name length differs from header");
    f.name = L[i++];
    if (tablen) {
      for (int k = 0; k < tablines; ++k, ++i) { if (i >= L.size()) return fail("eof in table"); if (k) f.table += '\n'; f.table += L[i]; }
      if ((int)f.table.size() + 1 != tablen) return fail("table length differs from header");
    }
    for (int k = 0; k < n; ++k, ++i) {
      if (i >= L.size()) return fail("eof in suffix values");
      const char* s = L[i].c_str(); char* e; long idx = std::strtol(s, &e, 10); if (e == s) return fail("bad suffix index");
      s = e; double v = std::strtod(s, &e); if (e == s) return fail("bad suffix value");
      f.values.push_back({(int)idx, (f.kind & 4) ? v : (double)(int)v});
    }
    p.suffixes.push_back(f);
  }
  p.ok = true; return p;
}

// Reference binary parser (strict).
inline Parsed parse_binary(const std::string& b, int nvars, int ncons) {
  Parsed p; size_t pos = 0;
  auto fail = [&](const std::string& e) { p.ok = false; p.err = e; return p; };
  auto rd_rec = [&](std::string& payload) -> bool {
    if (pos + 4 > b.size()) return false; uint32_t l; std::memcpy(&l, b.data() + pos, 4); pos += 4;
    if (pos + l + 4 > b.size()) return false; payload = b.substr(pos, l); pos += l;
    uint32_t l2; std::memcpy(&l2, b.data() + pos, 4); pos += 4; return l == l2;
  };
  std::string r;
  if (!rd_rec(r) || r != "binary") return fail("no binary magic");
  for (;;) {
    if (!rd_rec(r)) return fail("bad message record");
    if (r.empty()) break;
    while (!r.empty() && r.back() == ' ') r.pop_back();
    p.message += r; p.message += '\n'; p.has_message = true;
  }
  if (!rd_rec(r)) return fail("missing duals/options record");
  int nd = ncons, np = nvars;
  if (r.size() >= 7 && r.compare(0, 7, "Options") == 0 && (r.size() - 7) % 4 == 0 && r.size() != (size_t)ncons * 8) {
    size_t q = 7; auto i32 = [&](int32_t& v) { if (q + 4 > r.size()) return false; std::memcpy(&v, r.data() + q, 4); q += 4; return true; };
    int32_t n; if (!i32(n)) return fail("short options"); if (n < 3 || n > 9) return fail("option count outside 3..9");
    std::vector<long> o(1, n); int32_t v1, v2;
    if (!i32(v1) || !i32(v2)) return fail("short options");
    bool vb = v2 == 3; long nread = vb ? n - 2 : n; o.push_back(v1); o.push_back(v2);
    for (long k = 2; k < nread + 4; ++k) { int32_t v; if (!i32(v)) return fail("short options"); o.push_back(v); }
    if (vb) { if (q + 8 > r.size()) return fail("short vbtol"); std::memcpy(&p.vbtol, r.data() + q, 8); q += 8; p.has_vbtol = true; }
    if (q != r.size()) return fail("options record length");
    p.has_options = true; p.options_raw = o;
    nd = (int)o[o.size() - 3]; np = (int)o[o.size() - 1];
    if (nd < 0 || nd > ncons || np < 0 || np > nvars) return fail("counts exceed problem size");
    if (!rd_rec(r)) return fail("missing duals record");
  }
  if (r.size() != (size_t)nd * 8) return fail("duals record length");
  for (int k = 0; k < nd; ++k) { double v; std::memcpy(&v, r.data() + 8 * k, 8); p.dual.push_back(v); }
  p.has_dual = nd > 0;
  if (!rd_rec(r) || r.size() != (size_t)np * 8) return fail("primals record");
  for (int k = 0; k < np; ++k) { double v; std::memcpy(&v, r.data() + 8 * k, 8); p.primal.push_back(v); }
  p.has_primal = np > 0;
  if (pos == b.size()) { p.ok = true; return p; }
  if (!rd_rec(r) || (r.size() != 8 && r.size() != 4)) return fail("objno record");
  { int32_t a; std::memcpy(&a, r.data(), 4); p.has_objno = true; p.objno = a;
    if (r.size() == 8) { std::memcpy(&a, r.data() + 4, 4); p.has_code = true; p.solve_code = a; } }
  while (pos < b.size()) {
    if (!rd_rec(r) || r.size() < 24 || r.compare(0, 8, "\nSuffix\n") != 0) return fail("suffix record");
    Suffix f; int32_t h[4]; std::memcpy(h, r.data() + 8, 16); f.kind = h[0];
    int n = h[1], namelen = h[2], tablen = h[3]; size_t q = 24;
    if (n < 0 || namelen < 2 || tablen < 0 || q + namelen + tablen > r.size()) return fail("suffix header");
    f.name = std::string(r.data() + q, namelen - 1); if (r[q + namelen - 1] != 0 || f.name.find('\0') != std::string::npos) return fail("suffix name terminator"); q += namelen;
    if (tablen) { f.table = std::string(r.data() + q, tablen - 1); if (r[q + tablen - 1] != 0) return fail("suffix table terminator"); q += tablen; }
    size_t vs = (f.kind & 4) ? 12 : 8; if (q + vs * n != r.size()) return fail("suffix record length");
    for (int k = 0; k < n; ++k) {
      int32_t idx; std::memcpy(&idx, r.data() + q, 4); q += 4; double v;
      if (f.kind & 4) { std::memcpy(&v, r.data() + q, 8); q += 8; } else { int32_t iv; std::memcpy(&iv, r.data() + q, 4); q += 4; v = iv; }
      f.values.push_back({idx, v});
    }
    p.suffixes.push_back(f);
  }
  p.ok = true; return p;
}

// ---------------------------------------------------------------------------- helpers
inline std::string hex_encode(const std::string& s) {
  static const char* H = "0123456789abcdef"; std::string o;
  for (unsigned char c : s) { o += H[c >> 4]; o += H[c & 15]; } return o;
}
inline std::string hex_decode(const std::string& h) {
  auto v = [](char c) { return c <= '9' ? c - '0' : (c | 32) - 'a' + 10; };
  std::string o; for (size_t i = 0; i + 1 < h.size(); i += 2) o += (char)(v(h[i]) * 16 + v(h[i + 1])); return o;
}

}  // namespace solref
