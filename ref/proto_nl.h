// proto_nl.h -- recording, protocol-checking NL handler (reference oracle for C02 / C03).
//
// Header-only, self-contained (needs only mp/nl-reader.h for NLHeader, expr::Kind, suf::Kind,
// func::Type, obj::Type, ComplInfo and fmt::StringRef).
//
//   pnl::Recorder h;                       // implements the complete mp NLHandler concept
//   mp::ReadNLString(text, h, "name", flags);
//   h.errors       -> protocol violations found so far (empty == the callback stream is well formed)
//   h.log          -> transcript, one line per callback (deterministic, doubles printed as bit
//                     patterns, names escaped); two reads of the same problem must give equal logs
//   h.nodes        -> table of every expression node reported (1-based ids; id 0 == null expr);
//                     filled only while record_model is true (default)
//   h.items        -> model-level records (objectives, constraints, bounds, linear parts, suffixes,
//                     functions ...) so that a consumer (C03) can rebuild the model that was read
//   h.event_names()/h.saw(name) -> callback names seen (coverage / vacuity guards)
//   h.max_depth    -> deepest Begin/End nesting seen
//
// The handler never throws and never allocates proportionally to an *announced* count (only to what
// is actually delivered), so hostile counts cannot make the oracle itself run out of memory.
//
// Callback grammar that is enforced (a push-down automaton):
//   * OnHeader is the first callback and happens once; EndInput is the last and happens once.
//   * Every index is inside the range declared by the header:
//       variable            [0, num_vars)              OnVariableRef, AddTerm, OnVarBounds,
//                                                      OnInitialValue, OnComplementarity(var)
//       algebraic con       [0, num_algebraic_cons)    OnAlgebraicCon, OnLinearConExpr, OnConBounds,
//                                                      OnInitialDualValue, OnComplementarity(con)
//       logical con         [0, num_logical_cons)      OnLogicalCon
//       objective           [0, num_objs)              OnObj, OnLinearObjExpr
//       function            [0, num_funcs)             OnFunction, BeginCall
//       common expression   [0, num_common_exprs())    BeginCommonExpr/EndCommonExpr, OnCommonExprRef
//       suffix value index  [0, n(kind)), n = num_vars | num_algebraic_cons+num_logical_cons |
//                                              num_objs | 1
//   * "flat" announcements -- OnLinearObjExpr/OnLinearConExpr/BeginCommonExpr(n) -> n AddTerm,
//     On{Int,Dbl}Suffix(n) -> n SetValue, OnColumnSizes -> num_vars-1 Add -- have no End callback:
//     the announced number of items must have arrived when the next other callback arrives.
//   * "nested" announcements -- BeginCall/VarArg/Sum/Count/NumberOf/SymbolicNumberOf/
//     IteratedLogical/Pairwise(n), BeginPLTerm(n), BeginCommonExpr -- are closed by their End*;
//     AddArg/AddSlope/AddBreakpoint and End* must refer to the innermost open frame, End* needs
//     exactly the announced number of items (NumberOf: arg0 counts as the first of n; PLTerm: n+1
//     slopes and n breakpoints, alternating, slope first).
//   * expression handles: every expression passed to a callback was returned earlier by this
//     handler, is used exactly once, and has the right class (numeric / logical / string / count);
//     when a top-level item (OnObj, OnAlgebraicCon, OnLogicalCon, EndCommonExpr) arrives no Begin
//     frame is open and no other expression is pending.  The null expression (id 0) is accepted
//     only as the body of OnObj / OnAlgebraicCon (the reader drops a constant zero there).
//
// Error strings start with a stable rule id (`index:`, `count:`, `nest:`, `order:`, `expr:`,
// `value:`) followed by the callback name, e.g. "index:OnVariableRef 2 not in [0,2)".
//
// Options: record_log (default true), record_model (default true) -- switch off for very large inputs
// if the transcript / the node+item tables are not needed (the protocol checks stay on); strict_values (default true) -- also check func type in {0,1}, suffix kind in 0..3,
// counts >= 0.
#pragma once
#include <cstdint>
#include <cstdio>
#include <cstring>
#include <set>
#include <string>
#include <vector>
#include "mp/nl-reader.h"

namespace pnl {

struct Expr {
  int id;
  Expr() : id(0) {}
  explicit Expr(int i) : id(i) {}
};

struct Node {
  char cls;            // 'N' numeric, 'L' logical, 'S' string, 'C' count (a numeric)
  const char *what;    // callback that created it
  int kind;            // mp::expr::Kind, or -1
  int a, b;            // integer payload (variable index, function index, count ...)
  double value;        // OnNumber / OnBool
  std::string str;     // OnString
  std::vector<int> args;        // child node ids in order
  std::vector<double> nums;     // PLTerm: slopes then breakpoints interleaved s0,b0,s1,...,sn
};

struct Item {            // model-level record (everything that is not an expression node)
  const char *what;
  int index, n, kind, expr;
  double lb, ub;
  std::string name;
  std::vector<int> idx;  // term / value indices
  std::vector<double> val;
};

inline std::string dbl_bits(double d) {
  uint64_t u; std::memcpy(&u, &d, 8);
  char b[64]; std::snprintf(b, sizeof b, "%.17g/%016llx", d, (unsigned long long)u);
  return b;
}
inline std::string esc(fmt::StringRef s) {
  std::string o;
  const char *p = s.data();
  for (std::size_t i = 0; i < s.size(); ++i) {
    unsigned char c = (unsigned char)p[i];
    if (c < 0x21 || c >= 0x7f || c == '\\') { char b[8]; std::snprintf(b, sizeof b, "\\x%02x", c); o += b; }
    else o += (char)c;
  }
  return o;
}

class Recorder {
 public:
  // ------------------------------------------------------------------ results
  std::vector<std::string> errors;
  std::string log;
  std::vector<Node> nodes;       // nodes[0] is a dummy (null expression)
  std::vector<Item> items;
  std::set<const char *> event_ptrs;   // callback names seen (string literals); see event_names()
  int max_depth = 0;
  long long num_callbacks = 0;
  bool header_seen = false, ended = false;
  mp::NLHeader header;
  bool record_log = true, strict_values = true, record_model = true;
  int error_cap = 16;

  Recorder() { nodes.push_back(Node{'-', "null", -1, 0, 0, 0, "", {}, {}}); cls_.push_back('-');
               what_.push_back("null"); consumed_.push_back(1); }

  std::set<std::string> event_names() const {
    std::set<std::string> s; for (const char *p : event_ptrs) s.insert(p); return s;
  }
  bool saw(const char *name) const {
    for (const char *p : event_ptrs) if (!std::strcmp(p, name)) return true;
    return false;
  }
  bool ok() const { return errors.empty(); }
  bool complete() const { return ended; }

  // ------------------------------------------------------------------ handler types
  typedef pnl::Expr Expr;
  typedef Expr NumericExpr;
  typedef Expr LogicalExpr;
  typedef Expr CountExpr;
  typedef Expr Reference;

 private:
  enum FlatKind { F_NONE, F_LINOBJ, F_LINCON, F_LINCE, F_ISUF, F_DSUF, F_COLS };
  struct Flat { FlatKind k; long long serial; int expected, got, ub; int item; };
  struct Frame { const char *what; long long serial; int expected, got; int node; int aux; };
  Flat flat_{F_NONE, 0, 0, 0, 0, -1};
  // light per-node bookkeeping (always kept, also when record_model is off)
  std::vector<char> cls_, consumed_;
  std::vector<const char *> what_;
  std::vector<Frame> stack_;
  long long serial_ = 0;
  int live_ = 0;

  void err(const std::string &s) { if ((int)errors.size() < error_cap) errors.push_back(s); }
  static std::string I(long long v) { return std::to_string(v); }

  // transcript line builder: appends straight into `log` (no temporaries); ' ' separates fields
  struct Ln {
    std::string *s;
    static int utoa(char *b, unsigned long long v) { char t[24]; int n = 0; do { t[n++] = (char)('0' + v % 10); v /= 10; } while (v); for (int i = 0; i < n; ++i) b[i] = t[n - 1 - i]; return n; }
    void num(long long v) { char b[24]; int n = 0; unsigned long long u = (unsigned long long)v; if (v < 0) { b[n++] = '-'; u = 0 - u; } n += utoa(b + n, u); s->append(b, n); }
    Ln &i(long long v) { if (s) { s->push_back(' '); num(v); } return *this; }
    Ln &h(long long id) { if (s) { s->append(" #", 2); num(id); } return *this; }
    Ln &to(long long id) { if (s) { s->append(" -> #", 5); num(id); } return *this; }
    Ln &d(double v) { if (s) { s->push_back(' '); char b[64]; uint64_t u; std::memcpy(&u, &v, 8);
                               int n = std::snprintf(b, sizeof b, "%.17g/%016llx", v, (unsigned long long)u); s->append(b, n); } return *this; }
    Ln &t(const std::string &x) { if (s) { s->push_back(' '); s->append(x); } return *this; }
    ~Ln() { if (s) s->push_back('\n'); }
  };
  Ln ln(const char *ev) { if (!record_log) return Ln{nullptr}; log += ev; return Ln{&log}; }
  // Every callback except the item callbacks of the open flat frame passes through here.
  void enter(const char *ev, bool is_header = false) {
    ++num_callbacks;
    event_ptrs.insert(ev);
    if (ended) err(std::string("order:") + ev + " after EndInput");
    if (!is_header && !header_seen) err(std::string("order:") + ev + " before OnHeader");
    close_flat(ev);
  }
  void close_flat(const char *by) {
    if (flat_.k == F_NONE) return;
    if (flat_.got != flat_.expected)
      err("count:" + std::string(flat_name(flat_.k)) + " announced " + I(flat_.expected) + " items, got " +
          I(flat_.got) + " before " + by);
    flat_.k = F_NONE;
  }
  static const char *flat_name(FlatKind k) {
    switch (k) { case F_LINOBJ: return "OnLinearObjExpr"; case F_LINCON: return "OnLinearConExpr";
      case F_LINCE: return "BeginCommonExpr.linear"; case F_ISUF: return "OnIntSuffix";
      case F_DSUF: return "OnDblSuffix"; case F_COLS: return "OnColumnSizes"; default: return "?"; }
  }
  void check_index(const char *ev, const char *what, long long i, long long n) {
    if (i < 0 || i >= n)
      err(std::string("index:") + ev + " " + what + " " + I(i) + " not in [0," + I(n) + ")");
  }
  void check_count(const char *ev, long long n) {
    if (strict_values && n < 0) err(std::string("value:") + ev + " negative count " + I(n));
  }
  int nvars() const { return header.num_vars; }
  int ncexprs() const { return header.num_common_exprs(); }

  Expr make(char cls, const char *what, int kind, int a = 0, int b = 0, double v = 0) {
    if (record_model) nodes.push_back(Node{cls, what, kind, a, b, v, "", {}, {}});
    cls_.push_back(cls); what_.push_back(what); consumed_.push_back(0);
    ++live_;
    return Expr((int)cls_.size() - 1);
  }
  // classes accepted: string of allowed cls letters
  int use(const char *ev, Expr e, const char *allowed, bool null_ok = false) {
    if (e.id == 0) {
      if (!null_ok) err(std::string("expr:") + ev + " null expression");
      return 0;
    }
    if (e.id < 0 || e.id >= (int)cls_.size()) {
      err(std::string("expr:") + ev + " unknown expression handle " + I(e.id));
      return 0;
    }
    if (consumed_[e.id]) err(std::string("expr:") + ev + " expression #" + I(e.id) + " used twice or before its End");
    else { consumed_[e.id] = 1; --live_; }
    if (!std::strchr(allowed, cls_[e.id]))
      err(std::string("expr:") + ev + " expression of class " + cls_[e.id] + " (" + what_[e.id] + ") where " +
          allowed + " expected");
    return e.id;
  }
  long long push(const char *what, int expected, int node, int aux = 0) {
    stack_.push_back(Frame{what, ++serial_, expected, 0, node, aux});
    if ((int)stack_.size() > max_depth) max_depth = (int)stack_.size();
    return serial_;
  }
  // returns the frame if `serial` is the innermost open frame
  Frame *top(const char *ev, long long serial) {
    if (stack_.empty()) { err(std::string("nest:") + ev + " with no open Begin"); return nullptr; }
    if (stack_.back().serial != serial) {
      err(std::string("nest:") + ev + " does not refer to the innermost open frame (" + stack_.back().what + ")");
      return nullptr;
    }
    return &stack_.back();
  }
  void top_level(const char *ev, int allowed_frames = 0) {
    if ((int)stack_.size() != allowed_frames)
      err(std::string("nest:") + ev + " while " + I((long long)stack_.size()) + " Begin frame(s) open (" +
          (stack_.empty() ? "" : stack_.back().what) + ")");
    if (live_ != 0) err(std::string("expr:") + ev + " leaves " + I(live_) + " pending expression(s)");
  }
  Item &item(const char *what, int index, int n = 0, int kind = 0, int expr = 0, double lb = 0, double ub = 0) {
    items.push_back(Item{what, index, n, kind, expr, lb, ub, "", {}, {}});
    return items.back();
  }

 public:
  // ------------------------------------------------------------------ item handlers
  class ArgHandler {
    friend class Recorder;
    Recorder *r_; long long serial_;
   public:
    ArgHandler() : r_(nullptr), serial_(0) {}
    ArgHandler(Recorder *r, long long s) : r_(r), serial_(s) {}
    void AddArg(Expr e) { if (r_) r_->add_arg(serial_, e); }
  };
  typedef ArgHandler NumericArgHandler, VarArgHandler, CallArgHandler, NumberOfArgHandler,
      CountArgHandler, LogicalArgHandler, PairwiseArgHandler, SymbolicArgHandler;

  class LinearExprHandler {
    friend class Recorder;
    Recorder *r_; long long serial_;
   public:
    LinearExprHandler() : r_(nullptr), serial_(0) {}
    LinearExprHandler(Recorder *r, long long s) : r_(r), serial_(s) {}
    void AddTerm(int var_index, double coef) { if (r_) r_->add_term(serial_, var_index, coef); }
  };
  typedef LinearExprHandler LinearObjHandler, LinearConHandler;

  class ColumnSizeHandler {
    Recorder *r_; long long serial_;
   public:
    ColumnSizeHandler(Recorder *r, long long s) : r_(r), serial_(s) {}
    void Add(int size) { r_->add_colsize(serial_, size); }
  };
  template <class T> class SuffixHandler {
    Recorder *r_; long long serial_;
   public:
    SuffixHandler(Recorder *r, long long s) : r_(r), serial_(s) {}
    void SetValue(int index, T value) { r_->set_suffix_value(serial_, index, (double)value, sizeof(T) == sizeof(int)); }
  };
  typedef SuffixHandler<int> IntSuffixHandler;
  typedef SuffixHandler<double> DblSuffixHandler;

  class PLTermHandler {
    friend class Recorder;
    Recorder *r_; long long serial_;
   public:
    PLTermHandler(Recorder *r, long long s) : r_(r), serial_(s) {}
    void AddSlope(double v) { r_->pl_item(serial_, true, v); }
    void AddBreakpoint(double v) { r_->pl_item(serial_, false, v); }
  };

 private:
  void add_arg(long long serial, Expr e) {
    ++num_callbacks; event_ptrs.insert("AddArg");
    close_flat("AddArg");
    Frame *f = top("AddArg", serial);
    const char *allowed = "NC";
    if (f) {
      if (f->aux == 'L') allowed = "L"; else if (f->aux == 'S') allowed = "NCS";
    } else allowed = "NCLS";
    int id = use("AddArg", e, allowed);
    if (f) {
      ++f->got;
      if (f->got > f->expected)
        err(std::string("count:") + f->what + " announced " + I(f->expected) + " arguments, AddArg #" + I(f->got));
      if (record_model && f->node > 0 && f->got <= f->expected) nodes[f->node].args.push_back(id);
    }
    ln("AddArg").h(id);
  }
  bool flat_is(long long serial, const char *ev) {
    if (flat_.k == F_NONE || flat_.serial != serial) {
      err(std::string("order:") + ev + " on a linear/suffix/column handler that is no longer (or not yet) current");
      return false;
    }
    return true;
  }
  void add_term(long long serial, int var, double coef) {
    ++num_callbacks; event_ptrs.insert("AddTerm");
    if (ended) err("order:AddTerm after EndInput");
    check_index("AddTerm", "variable", var, nvars());
    if (flat_is(serial, "AddTerm")) {
      ++flat_.got;
      if (flat_.got > flat_.expected)
        err(std::string("count:") + flat_name(flat_.k) + " announced " + I(flat_.expected) + " terms, AddTerm #" +
            I(flat_.got));
      if (record_model && flat_.item >= 0) { items[flat_.item].idx.push_back(var); items[flat_.item].val.push_back(coef); }
    }
    ln("AddTerm").i(var).d(coef);
  }
  void add_colsize(long long serial, int size) {
    ++num_callbacks; event_ptrs.insert("ColumnSize.Add");
    if (ended) err("order:ColumnSize.Add after EndInput");
    if (strict_values && size < 0) err("value:ColumnSize.Add negative size " + I(size));
    if (flat_is(serial, "ColumnSize.Add")) {
      ++flat_.got;
      if (flat_.got > flat_.expected)
        err("count:OnColumnSizes expects " + I(flat_.expected) + " sizes, Add #" + I(flat_.got));
      if (record_model && flat_.item >= 0) items[flat_.item].idx.push_back(size);
    }
    ln("ColSize").i(size);
  }
  void set_suffix_value(long long serial, int index, double v, bool is_int) {
    ++num_callbacks; event_ptrs.insert("SetValue");
    if (ended) err("order:SetValue after EndInput");
    if (flat_is(serial, "SetValue")) {
      check_index("SetValue", "suffix item", index, flat_.ub);
      ++flat_.got;
      if (flat_.got > flat_.expected)
        err(std::string("count:") + flat_name(flat_.k) + " announced " + I(flat_.expected) + " values, SetValue #" +
            I(flat_.got));
      if (record_model && flat_.item >= 0) { items[flat_.item].idx.push_back(index); items[flat_.item].val.push_back(v); }
    }
    if (is_int) ln("SetValue").i(index).i((long long)v); else ln("SetValue").i(index).d(v);
  }
  void pl_item(long long serial, bool slope, double v) {
    ++num_callbacks; event_ptrs.insert(slope ? "AddSlope" : "AddBreakpoint");
    close_flat("PLTerm item");
    const char *ev = slope ? "AddSlope" : "AddBreakpoint";
    Frame *f = top(ev, serial);
    if (f) {
      // got counts items; even positions are slopes, odd are breakpoints; 2n+1 items in total
      bool want_slope = (f->got % 2) == 0;
      if (want_slope != slope) err(std::string("order:") + ev + " out of slope/breakpoint alternation");
      ++f->got;
      if (f->got > 2 * (long long)f->expected + 1)
        err("count:BeginPLTerm announced " + I(f->expected) + " breakpoints, item #" + I(f->got));
      if (record_model && f->node > 0 && f->got <= 2 * (long long)f->expected + 1) nodes[f->node].nums.push_back(v);
    }
    ln(ev).d(v);
  }
  ArgHandler begin(const char *ev, char cls, int kind, int n, char argcls, int a = 0, int preset = 0) {
    check_count(ev, n);
    Expr e = make(cls, ev, kind, a, n);   // the node exists from Begin on; it becomes usable at End
    --live_;                               // ... but is not pending until End
    consumed_[e.id] = 1;
    long long s = push(ev, n, e.id, argcls);
    stack_.back().got = preset;
    return ArgHandler(this, s);
  }
  Expr end(const char *ev, const char *begin_ev, ArgHandler h) {
    Frame *f = top(ev, h.serial_);
    int id = 0;
    if (f) {
      if (std::strcmp(f->what, begin_ev) != 0)
        err(std::string("nest:") + ev + " closes a frame opened by " + f->what);
      if (f->got != f->expected)
        err(std::string("count:") + f->what + " announced " + I(f->expected) + " arguments, got " + I(f->got) +
            " at " + ev);
      id = f->node;
      stack_.pop_back();
      consumed_[id] = 0; ++live_;
    } else {
      id = make('N', ev, -1).id;   // keep going with a fresh node
    }
    ln(ev).to(id);
    return Expr(id);
  }

 public:
  // ------------------------------------------------------------------ NLHandler concept
  void OnHeader(const mp::NLHeader &h) {
    enter("OnHeader", true);
    if (header_seen) err("order:OnHeader twice");
    header_seen = true; header = h;
    if (h.num_vars < 0 || h.num_algebraic_cons < 0 || h.num_logical_cons < 0 || h.num_objs < 0 ||
        h.num_funcs < 0 || h.num_common_exprs() < 0 || h.num_common_exprs_in_both < 0 ||
        h.num_common_exprs_in_cons < 0 || h.num_common_exprs_in_objs < 0 ||
        h.num_common_exprs_in_single_cons < 0 || h.num_common_exprs_in_single_objs < 0)
      err("value:OnHeader negative dimension");
    if (record_log) {
      char b[1024];
      std::snprintf(b, sizeof b,
          "fmt=%d vars=%d cons=%d objs=%d ranges=%d eqns=%d lcons=%d nlc=%d nlo=%d compl=%d nlcompl=%d cdi=%d "
          "cvnz=%d nnc=%d lnc=%d nlvc=%d nlvo=%d nlvb=%d lnv=%d funcs=%d arith=%d flags=%d bin=%d int=%d nlib=%d "
          "nlic=%d nlio=%d nzc=%llu nzo=%llu cnl=%d vnl=%d ce=%d,%d,%d,%d,%d nopt=%d",
          (int)h.format, h.num_vars, h.num_algebraic_cons, h.num_objs, h.num_ranges, h.num_eqns,
          h.num_logical_cons, h.num_nl_cons, h.num_nl_objs, h.num_compl_conds, h.num_nl_compl_conds,
          h.num_compl_dbl_ineqs, h.num_compl_vars_with_nz_lb, h.num_nl_net_cons, h.num_linear_net_cons,
          h.num_nl_vars_in_cons, h.num_nl_vars_in_objs, h.num_nl_vars_in_both, h.num_linear_net_vars,
          h.num_funcs, h.arith_kind, h.flags, h.num_linear_binary_vars, h.num_linear_integer_vars,
          h.num_nl_integer_vars_in_both, h.num_nl_integer_vars_in_cons, h.num_nl_integer_vars_in_objs,
          (unsigned long long)h.num_con_nonzeros, (unsigned long long)h.num_obj_nonzeros, h.max_con_name_len,
          h.max_var_name_len, h.num_common_exprs_in_both, h.num_common_exprs_in_cons,
          h.num_common_exprs_in_objs, h.num_common_exprs_in_single_cons, h.num_common_exprs_in_single_objs,
          h.num_ampl_options);
      std::string s = b;
      for (int i = 0; i < h.num_ampl_options && i < mp::MAX_AMPL_OPTIONS; ++i) s += " o" + I(h.ampl_options[i]);
      s += " vbtol=" + dbl_bits(h.ampl_vbtol);
      ln("OnHeader").t(s);
    }
  }
  bool NeedObj(int) const { return true; }
  int resulting_obj_index(int i) const { return i; }

  void OnObj(int index, mp::obj::Type type, NumericExpr e) {
    enter("OnObj");
    check_index("OnObj", "objective", index, header.num_objs);
    int id = use("OnObj", e, "NC", true);
    top_level("OnObj");
    if (record_model) item("OnObj", index, 0, (int)type, id);
    ln("OnObj").i(index).i((int)type).h(id);
  }
  void OnAlgebraicCon(int index, NumericExpr e) {
    enter("OnAlgebraicCon");
    check_index("OnAlgebraicCon", "constraint", index, header.num_algebraic_cons);
    int id = use("OnAlgebraicCon", e, "NC", true);
    top_level("OnAlgebraicCon");
    if (record_model) item("OnAlgebraicCon", index, 0, 0, id);
    ln("OnAlgebraicCon").i(index).h(id);
  }
  void OnLogicalCon(int index, LogicalExpr e) {
    enter("OnLogicalCon");
    check_index("OnLogicalCon", "logical constraint", index, header.num_logical_cons);
    int id = use("OnLogicalCon", e, "L");
    top_level("OnLogicalCon");
    if (record_model) item("OnLogicalCon", index, 0, 0, id);
    ln("OnLogicalCon").i(index).h(id);
  }
  LinearExprHandler BeginCommonExpr(int index, int num_linear_terms) {
    enter("BeginCommonExpr");
    check_index("BeginCommonExpr", "common expression", index, ncexprs());
    check_count("BeginCommonExpr", num_linear_terms);
    if (!stack_.empty()) err("nest:BeginCommonExpr inside " + std::string(stack_.back().what));
    if (live_ != 0) err("expr:BeginCommonExpr with " + I(live_) + " pending expression(s)");
    push("BeginCommonExpr", 0, 0, index);
    int it = -1;
    if (record_model) { item("CommonExpr", index, num_linear_terms); it = (int)items.size() - 1; }
    flat_ = Flat{F_LINCE, ++serial_, num_linear_terms, 0, nvars(), it};
    ln("BeginCommonExpr").i(index).i(num_linear_terms);
    return LinearExprHandler(this, flat_.serial);
  }
  void EndCommonExpr(int index, NumericExpr e, int position) {
    enter("EndCommonExpr");
    check_index("EndCommonExpr", "common expression", index, ncexprs());
    int id = use("EndCommonExpr", e, "NC");
    if (stack_.empty() || std::strcmp(stack_.back().what, "BeginCommonExpr") != 0)
      err("nest:EndCommonExpr without matching BeginCommonExpr");
    else {
      if (stack_.back().aux != index)
        err("nest:EndCommonExpr index " + I(index) + " differs from BeginCommonExpr index " + I(stack_.back().aux));
      stack_.pop_back();
    }
    top_level("EndCommonExpr");
    if (record_model) item("EndCommonExpr", index, position, 0, id);
    ln("EndCommonExpr").i(index).h(id).i(position);
  }
  void OnComplementarity(int con_index, int var_index, mp::ComplInfo info) {
    enter("OnComplementarity");
    check_index("OnComplementarity", "constraint", con_index, header.num_algebraic_cons);
    check_index("OnComplementarity", "variable", var_index, nvars());
    top_level("OnComplementarity");
    if (record_model) item("OnComplementarity", con_index, var_index, 0, 0, info.con_lb(), info.con_ub());
    ln("OnComplementarity").i(con_index).i(var_index).d(info.con_lb()).d(info.con_ub());
  }
  LinearObjHandler OnLinearObjExpr(int index, int n) {
    enter("OnLinearObjExpr");
    check_index("OnLinearObjExpr", "objective", index, header.num_objs);
    check_count("OnLinearObjExpr", n);
    top_level("OnLinearObjExpr");
    int it = -1;
    if (record_model) { item("OnLinearObjExpr", index, n); it = (int)items.size() - 1; }
    flat_ = Flat{F_LINOBJ, ++serial_, n, 0, nvars(), it};
    ln("OnLinearObjExpr").i(index).i(n);
    return LinearObjHandler(this, flat_.serial);
  }
  LinearConHandler OnLinearConExpr(int index, int n) {
    enter("OnLinearConExpr");
    check_index("OnLinearConExpr", "constraint", index, header.num_algebraic_cons);
    check_count("OnLinearConExpr", n);
    top_level("OnLinearConExpr");
    int it = -1;
    if (record_model) { item("OnLinearConExpr", index, n); it = (int)items.size() - 1; }
    flat_ = Flat{F_LINCON, ++serial_, n, 0, nvars(), it};
    ln("OnLinearConExpr").i(index).i(n);
    return LinearConHandler(this, flat_.serial);
  }
  void OnVarBounds(int index, double lb, double ub) {
    enter("OnVarBounds");
    check_index("OnVarBounds", "variable", index, nvars());
    top_level("OnVarBounds");
    if (record_model) item("OnVarBounds", index, 0, 0, 0, lb, ub);
    ln("OnVarBounds").i(index).d(lb).d(ub);
  }
  void OnConBounds(int index, double lb, double ub) {
    enter("OnConBounds");
    check_index("OnConBounds", "constraint", index, header.num_algebraic_cons);
    top_level("OnConBounds");
    if (record_model) item("OnConBounds", index, 0, 0, 0, lb, ub);
    ln("OnConBounds").i(index).d(lb).d(ub);
  }
  void OnInitialValue(int index, double v) {
    enter("OnInitialValue");
    check_index("OnInitialValue", "variable", index, nvars());
    top_level("OnInitialValue");
    if (record_model) item("OnInitialValue", index, 0, 0, 0, v, v);
    ln("OnInitialValue").i(index).d(v);
  }
  void OnInitialDualValue(int index, double v) {
    enter("OnInitialDualValue");
    check_index("OnInitialDualValue", "constraint", index, header.num_algebraic_cons);
    top_level("OnInitialDualValue");
    if (record_model) item("OnInitialDualValue", index, 0, 0, 0, v, v);
    ln("OnInitialDualValue").i(index).d(v);
  }
  ColumnSizeHandler OnColumnSizes() {
    enter("OnColumnSizes");
    top_level("OnColumnSizes");
    int it = -1;
    if (record_model) { item("OnColumnSizes", 0, nvars() - 1); it = (int)items.size() - 1; }
    flat_ = Flat{F_COLS, ++serial_, nvars() - 1, 0, 0, it};
    ln("OnColumnSizes");
    return ColumnSizeHandler(this, flat_.serial);
  }
  void OnFunction(int index, fmt::StringRef name, int num_args, mp::func::Type type) {
    enter("OnFunction");
    check_index("OnFunction", "function", index, header.num_funcs);
    if (strict_values && (int)type != 0 && (int)type != 1) err("value:OnFunction type " + I((int)type));
    top_level("OnFunction");
    if (record_model) { Item &i = item("OnFunction", index, num_args, (int)type); i.name.assign(name.data(), name.size()); }
    ln("OnFunction").i(index).t(esc(name)).i(num_args).i((int)type);
  }
 private:
  long long suffix(const char *ev, FlatKind fk, fmt::StringRef name, mp::suf::Kind kind, int n) {
    enter(ev);
    check_count(ev, n);
    top_level(ev);
    int k = (int)kind, ub = 0;
    if (strict_values && (k < 0 || k > 3)) err(std::string("value:") + ev + " kind " + I(k));
    switch (k & 3) {
      case 0: ub = nvars(); break;
      case 1: ub = header.num_algebraic_cons + header.num_logical_cons; break;
      case 2: ub = header.num_objs; break;
      default: ub = 1;
    }
    int it = -1;
    if (record_model) { Item &i = item(ev, 0, n, k); i.name.assign(name.data(), name.size()); it = (int)items.size() - 1; }
    flat_ = Flat{fk, ++serial_, n, 0, ub, it};
    ln(ev).t(esc(name)).i(k).i(n);
    return flat_.serial;
  }
 public:
  IntSuffixHandler OnIntSuffix(fmt::StringRef name, mp::suf::Kind kind, int n) {
    return IntSuffixHandler(this, suffix("OnIntSuffix", F_ISUF, name, kind, n));
  }
  DblSuffixHandler OnDblSuffix(fmt::StringRef name, mp::suf::Kind kind, int n) {
    return DblSuffixHandler(this, suffix("OnDblSuffix", F_DSUF, name, kind, n));
  }

  // ---- expressions
  NumericExpr OnNumber(double v) {
    enter("OnNumber");
    Expr e = make('N', "OnNumber", -1, 0, 0, v);
    ln("OnNumber").d(v).to(e.id);
    return e;
  }
  Reference OnVariableRef(int i) {
    enter("OnVariableRef");
    check_index("OnVariableRef", "variable", i, nvars());
    Expr e = make('N', "OnVariableRef", -1, i);
    ln("OnVariableRef").i(i).to(e.id);
    return e;
  }
  Reference OnCommonExprRef(int i) {
    enter("OnCommonExprRef");
    check_index("OnCommonExprRef", "common expression", i, ncexprs());
    Expr e = make('N', "OnCommonExprRef", -1, i);
    ln("OnCommonExprRef").i(i).to(e.id);
    return e;
  }
  NumericExpr OnUnary(mp::expr::Kind k, NumericExpr a) {
    enter("OnUnary");
    int x = use("OnUnary", a, "NC");
    Expr e = make('N', "OnUnary", (int)k);
    if (record_model) nodes[e.id].args = {x};
    ln("OnUnary").i((int)k).h(x).to(e.id);
    return e;
  }
  NumericExpr OnBinary(mp::expr::Kind k, NumericExpr a, NumericExpr b) {
    enter("OnBinary");
    int x = use("OnBinary", a, "NC"), y = use("OnBinary", b, "NC");
    Expr e = make('N', "OnBinary", (int)k);
    if (record_model) nodes[e.id].args = {x, y};
    ln("OnBinary").i((int)k).h(x).h(y).to(e.id);
    return e;
  }
  NumericExpr OnIf(LogicalExpr c, NumericExpr t, NumericExpr f) {
    enter("OnIf");
    int x = use("OnIf", c, "L"), y = use("OnIf", t, "NC"), z = use("OnIf", f, "NC");
    Expr e = make('N', "OnIf", -1);
    if (record_model) nodes[e.id].args = {x, y, z};
    ln("OnIf").h(x).h(y).h(z).to(e.id);
    return e;
  }
  PLTermHandler BeginPLTerm(int num_breakpoints) {
    enter("BeginPLTerm");
    check_count("BeginPLTerm", num_breakpoints);
    Expr e = make('N', "PLTerm", -1, 0, num_breakpoints);
    --live_; consumed_[e.id] = 1;
    long long s = push("BeginPLTerm", num_breakpoints, e.id);
    ln("BeginPLTerm").i(num_breakpoints);
    return PLTermHandler(this, s);
  }
  NumericExpr EndPLTerm(PLTermHandler h, Reference arg) {
    enter("EndPLTerm");
    int x = use("EndPLTerm", arg, "N");
    if (x > 0 && std::strcmp(what_[x], "OnVariableRef") != 0 && std::strcmp(what_[x], "OnCommonExprRef") != 0)
      err("expr:EndPLTerm argument is not a reference");
    Frame *f = top("EndPLTerm", h.serial_);
    int id = 0;
    if (f) {
      if (std::strcmp(f->what, "BeginPLTerm") != 0) err(std::string("nest:EndPLTerm closes a frame opened by ") + f->what);
      if (f->got != 2 * (long long)f->expected + 1)
        err("count:BeginPLTerm announced " + I(f->expected) + " breakpoints (" + I(2 * (long long)f->expected + 1) +
            " items), got " + I(f->got));
      id = f->node; stack_.pop_back();
      consumed_[id] = 0; ++live_;
      if (record_model) nodes[id].args = {x};
    } else id = make('N', "EndPLTerm", -1).id;
    ln("EndPLTerm").h(x).to(id);
    return Expr(id);
  }
  CallArgHandler BeginCall(int func_index, int n) {
    enter("BeginCall");
    check_index("BeginCall", "function", func_index, header.num_funcs);
    ln("BeginCall").i(func_index).i(n);
    return begin("BeginCall", 'N', -1, n, 'S', func_index);
  }
  NumericExpr EndCall(CallArgHandler h) { enter("EndCall"); return end("EndCall", "BeginCall", h); }
  VarArgHandler BeginVarArg(mp::expr::Kind k, int n) {
    enter("BeginVarArg");
    ln("BeginVarArg").i((int)k).i(n);
    return begin("BeginVarArg", 'N', (int)k, n, 'N');
  }
  NumericExpr EndVarArg(VarArgHandler h) { enter("EndVarArg"); return end("EndVarArg", "BeginVarArg", h); }
  NumericArgHandler BeginSum(int n) {
    enter("BeginSum");
    ln("BeginSum").i(n);
    return begin("BeginSum", 'N', (int)mp::expr::SUM, n, 'N');
  }
  NumericExpr EndSum(NumericArgHandler h) { enter("EndSum"); return end("EndSum", "BeginSum", h); }
  CountArgHandler BeginCount(int n) {
    enter("BeginCount");
    ln("BeginCount").i(n);
    return begin("BeginCount", 'C', (int)mp::expr::COUNT, n, 'L');
  }
  CountExpr EndCount(CountArgHandler h) { enter("EndCount"); return end("EndCount", "BeginCount", h); }
  NumberOfArgHandler BeginNumberOf(int n, NumericExpr arg0) {
    enter("BeginNumberOf");
    int x = use("BeginNumberOf", arg0, "NC");
    if (strict_values && n < 1) err("value:BeginNumberOf count " + I(n) + " < 1");
    ln("BeginNumberOf").i(n).h(x);
    ArgHandler h = begin("BeginNumberOf", 'N', (int)mp::expr::NUMBEROF, n, 'N', 0, 1);
    if (record_model) nodes[stack_.back().node].args.push_back(x);
    return h;
  }
  NumericExpr EndNumberOf(NumberOfArgHandler h) { enter("EndNumberOf"); return end("EndNumberOf", "BeginNumberOf", h); }
  SymbolicArgHandler BeginSymbolicNumberOf(int n, Expr arg0) {
    enter("BeginSymbolicNumberOf");
    int x = use("BeginSymbolicNumberOf", arg0, "NCS");
    if (strict_values && n < 1) err("value:BeginSymbolicNumberOf count " + I(n) + " < 1");
    ln("BeginSymbolicNumberOf").i(n).h(x);
    ArgHandler h = begin("BeginSymbolicNumberOf", 'N', (int)mp::expr::NUMBEROF_SYM, n, 'S', 0, 1);
    if (record_model) nodes[stack_.back().node].args.push_back(x);
    return h;
  }
  NumericExpr EndSymbolicNumberOf(SymbolicArgHandler h) {
    enter("EndSymbolicNumberOf"); return end("EndSymbolicNumberOf", "BeginSymbolicNumberOf", h);
  }
  LogicalExpr OnBool(bool v) {
    enter("OnBool");
    Expr e = make('L', "OnBool", -1, v ? 1 : 0, 0, v ? 1 : 0);
    ln("OnBool").i(v ? 1 : 0).to(e.id);
    return e;
  }
  LogicalExpr OnNot(LogicalExpr a) {
    enter("OnNot");
    int x = use("OnNot", a, "L");
    Expr e = make('L', "OnNot", (int)mp::expr::NOT);
    if (record_model) nodes[e.id].args = {x};
    ln("OnNot").h(x).to(e.id);
    return e;
  }
  LogicalExpr OnBinaryLogical(mp::expr::Kind k, LogicalExpr a, LogicalExpr b) {
    enter("OnBinaryLogical");
    int x = use("OnBinaryLogical", a, "L"), y = use("OnBinaryLogical", b, "L");
    Expr e = make('L', "OnBinaryLogical", (int)k);
    if (record_model) nodes[e.id].args = {x, y};
    ln("OnBinaryLogical").i((int)k).h(x).h(y).to(e.id);
    return e;
  }
  LogicalExpr OnRelational(mp::expr::Kind k, NumericExpr a, NumericExpr b) {
    enter("OnRelational");
    int x = use("OnRelational", a, "NC"), y = use("OnRelational", b, "NC");
    Expr e = make('L', "OnRelational", (int)k);
    if (record_model) nodes[e.id].args = {x, y};
    ln("OnRelational").i((int)k).h(x).h(y).to(e.id);
    return e;
  }
  LogicalExpr OnLogicalCount(mp::expr::Kind k, NumericExpr a, CountExpr b) {
    enter("OnLogicalCount");
    int x = use("OnLogicalCount", a, "NC"), y = use("OnLogicalCount", b, "C");
    Expr e = make('L', "OnLogicalCount", (int)k);
    if (record_model) nodes[e.id].args = {x, y};
    ln("OnLogicalCount").i((int)k).h(x).h(y).to(e.id);
    return e;
  }
  LogicalExpr OnImplication(LogicalExpr c, LogicalExpr t, LogicalExpr f) {
    enter("OnImplication");
    int x = use("OnImplication", c, "L"), y = use("OnImplication", t, "L"), z = use("OnImplication", f, "L");
    Expr e = make('L', "OnImplication", (int)mp::expr::IMPLICATION);
    if (record_model) nodes[e.id].args = {x, y, z};
    ln("OnImplication").h(x).h(y).h(z).to(e.id);
    return e;
  }
  LogicalArgHandler BeginIteratedLogical(mp::expr::Kind k, int n) {
    enter("BeginIteratedLogical");
    ln("BeginIteratedLogical").i((int)k).i(n);
    return begin("BeginIteratedLogical", 'L', (int)k, n, 'L');
  }
  LogicalExpr EndIteratedLogical(LogicalArgHandler h) {
    enter("EndIteratedLogical"); return end("EndIteratedLogical", "BeginIteratedLogical", h);
  }
  PairwiseArgHandler BeginPairwise(mp::expr::Kind k, int n) {
    enter("BeginPairwise");
    ln("BeginPairwise").i((int)k).i(n);
    return begin("BeginPairwise", 'L', (int)k, n, 'N');
  }
  LogicalExpr EndPairwise(PairwiseArgHandler h) { enter("EndPairwise"); return end("EndPairwise", "BeginPairwise", h); }
  Expr OnString(fmt::StringRef v) {
    enter("OnString");
    Expr e = make('S', "OnString", (int)mp::expr::STRING);
    if (record_model) nodes[e.id].str.assign(v.data() ? v.data() : "", v.size());
    ln("OnString").t(v.data() ? esc(v) : std::string()).i((long long)v.size()).to(e.id);
    return e;
  }
  Expr OnSymbolicIf(LogicalExpr c, Expr t, Expr f) {
    enter("OnSymbolicIf");
    int x = use("OnSymbolicIf", c, "L"), y = use("OnSymbolicIf", t, "NCS"), z = use("OnSymbolicIf", f, "NCS");
    Expr e = make('S', "OnSymbolicIf", (int)mp::expr::IFSYM);
    if (record_model) nodes[e.id].args = {x, y, z};
    ln("OnSymbolicIf").h(x).h(y).h(z).to(e.id);
    return e;
  }
  void EndInput() {
    enter("EndInput");
    if (!stack_.empty()) err("nest:EndInput with open frame " + std::string(stack_.back().what));
    if (live_ != 0) err("expr:EndInput with " + I(live_) + " pending expression(s)");
    ended = true;
    ln("EndInput");
  }

  // Call after a read that ended with an exception to learn whether the *delivered prefix* was
  // well formed: nothing to do -- `errors` is filled incrementally.  An incomplete flat or nested
  // frame at the point of an exception is not an error.
};

// ---------------------------------------------------------------------------------------------
// Self-test of the oracle: drives the recorder by hand with one valid and several invalid callback
// sequences.  Returns the empty string when every invalid sequence is rejected with the expected
// rule and the valid one is accepted, otherwise a description of what went wrong.
inline std::string selftest() {
  auto mk = [](Recorder &r, int nv, int nc, int no) {
    mp::NLHeader h = mp::NLHeader(); h.num_vars = nv; h.num_algebraic_cons = nc; h.num_objs = no; h.num_funcs = 1;
    r.OnHeader(h);
  };
  auto has = [](const Recorder &r, const char *prefix) {
    for (auto &e : r.errors) if (e.compare(0, std::strlen(prefix), prefix) == 0) return true;
    return false;
  };
  { Recorder r; mk(r, 2, 1, 1);
    auto s = r.BeginSum(3); s.AddArg(r.OnVariableRef(0)); s.AddArg(r.OnNumber(1)); s.AddArg(r.OnVariableRef(1));
    r.OnAlgebraicCon(0, r.EndSum(s));
    auto l = r.OnLinearConExpr(0, 2); l.AddTerm(0, 1); l.AddTerm(1, 2);
    r.OnObj(0, mp::obj::MIN, Expr());
    r.EndInput();
    if (!r.ok()) return "valid sequence rejected: " + r.errors[0];
    if (r.max_depth != 1) return "depth not tracked"; }
  { Recorder r; mk(r, 2, 1, 1); r.OnAlgebraicCon(0, r.OnVariableRef(2));
    if (!has(r, "index:OnVariableRef")) return "variable index == num_vars accepted"; }
  { Recorder r; mk(r, 2, 1, 1); r.OnAlgebraicCon(1, r.OnVariableRef(0));
    if (!has(r, "index:OnAlgebraicCon")) return "constraint index == num_cons accepted"; }
  { Recorder r; mk(r, 2, 1, 1); auto s = r.BeginSum(3); s.AddArg(r.OnVariableRef(0)); s.AddArg(r.OnNumber(1));
    r.OnAlgebraicCon(0, r.EndSum(s));
    if (!has(r, "count:BeginSum")) return "short argument list accepted"; }
  { Recorder r; mk(r, 2, 1, 1); auto l = r.OnLinearConExpr(0, 2); l.AddTerm(0, 1); r.OnObj(0, mp::obj::MIN, Expr());
    if (!has(r, "count:OnLinearConExpr")) return "short linear part accepted"; }
  { Recorder r; mk(r, 2, 1, 1); auto l = r.OnLinearConExpr(0, 1); l.AddTerm(0, 1); l.AddTerm(1, 1);
    if (!has(r, "count:OnLinearConExpr")) return "long linear part accepted"; }
  { Recorder r; mk(r, 2, 1, 1); auto a = r.BeginSum(3); auto b = r.BeginVarArg(mp::expr::MIN, 1);
    a.AddArg(r.OnNumber(1));
    if (!has(r, "nest:AddArg")) return "AddArg to an outer frame accepted"; }
  { Recorder r; mk(r, 2, 1, 1); auto a = r.BeginSum(3); r.OnAlgebraicCon(0, r.OnNumber(1));
    if (!has(r, "nest:OnAlgebraicCon")) return "top-level item inside an open frame accepted"; }
  { Recorder r; mk(r, 2, 1, 1); r.EndInput(); r.OnVarBounds(0, 0, 1);
    if (!has(r, "order:OnVarBounds")) return "callback after EndInput accepted"; }
  { Recorder r; r.OnVarBounds(0, 0, 1);
    if (!has(r, "order:OnVarBounds")) return "callback before OnHeader accepted"; }
  { Recorder r; mk(r, 2, 1, 1); auto s = r.OnIntSuffix("a", mp::suf::VAR, 1); s.SetValue(2, 1);
    if (!has(r, "index:SetValue")) return "suffix index == num_vars accepted"; }
  { Recorder r; mk(r, 2, 1, 1); Expr e = r.OnNumber(1); r.OnBinary(mp::expr::ADD, e, e);
    if (!has(r, "expr:OnBinary")) return "expression used twice accepted"; }
  { Recorder r; mk(r, 2, 1, 1); auto p = r.BeginPLTerm(1); p.AddSlope(1); p.AddBreakpoint(0);
    r.OnAlgebraicCon(0, r.EndPLTerm(p, r.OnVariableRef(0)));
    if (!has(r, "count:BeginPLTerm")) return "short PL term accepted"; }
  { Recorder r; mk(r, 2, 1, 1); r.OnNot(r.OnNumber(1));
    if (!has(r, "expr:OnNot")) return "numeric argument of a logical operator accepted"; }
  return "";
}

}  // namespace pnl
