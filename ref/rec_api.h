// RecAPI: a recording "solver" ModelAPI for mp::FlatConverter.
//
// * accepts every flat constraint type with an acceptance level taken from a run-time table
//   (vf::g_acc, keyed by Con::GetTypeName()), so ONE binary serves every acceptance
//   configuration; the three member templates win overload resolution against
//   BasicFlatModelAPI's (const BasicConstraint*) versions, so no type can be forgotten;
// * records AddVariables / Set*Objective / AddConstraint as JSON text (names escaped here,
//   constraint payload through the library's WriteJSON(con) overloads);
// * static capability flags are table driven as well.
#pragma once
#include <map>
#include <string>
#include <vector>
#include <sstream>
#include <cmath>
#include <typeinfo>
#include "mp/flat/model_api_base.h"
#include "mp/flat/constr_std.h"
#include "mp/util-json-write.hpp"
#include "explore.h"

namespace vf {
inline std::map<std::string, int>& acc() { static std::map<std::string, int> m; return m; }
struct State {
  int dflt = 0, quadobj = 0, nonconvexqc = 0, mixconic = 0, socpcorner = 0;
  std::vector<std::string> cons;      // JSON objects
  std::string vars = "[]";            // [[lb,ub,type,"name"],...]
  std::vector<std::string> objs;      // JSON objects
  std::map<std::string, int> seen;    // types whose acceptance was queried -> level answered
  std::map<std::string, int> stored;  // types delivered -> count
  bool names = false;
  void reset_record() { cons.clear(); vars = "[]"; objs.clear(); seen.clear(); stored.clear(); }
};
inline State& st() { static State s; return s; }
inline std::map<std::string, std::string>& typeid2tn() { static std::map<std::string, std::string> m; return m; }
inline int level(const std::string& tn) {
  auto it = acc().find(tn);
  int l = it == acc().end() ? st().dflt : it->second;
  st().seen[tn] = l;
  return l;
}
inline std::string num(double v) {
  if (std::isnan(v)) return "\"nan\"";
  if (std::isinf(v)) return v > 0 ? "1e999" : "-1e999";
  char b[40]; std::snprintf(b, sizeof b, "%.17g", v); return b;
}
// constraint group as a real MIP API would declare it
template <class Con> struct GroupOf { static constexpr int value = mp::CG_General; };
#define VF_GROUP(T, G) template <> struct GroupOf<mp::T> { static constexpr int value = mp::G; };
VF_GROUP(LinConRange, CG_Linear) VF_GROUP(LinConLE, CG_Linear) VF_GROUP(LinConEQ, CG_Linear)
VF_GROUP(LinConGE, CG_Linear)
VF_GROUP(QuadConRange, CG_Quadratic) VF_GROUP(QuadConLE, CG_Quadratic) VF_GROUP(QuadConEQ, CG_Quadratic)
VF_GROUP(QuadConGE, CG_Quadratic)
VF_GROUP(QuadraticConeConstraint, CG_Conic) VF_GROUP(RotatedQuadraticConeConstraint, CG_Conic)
VF_GROUP(ExponentialConeConstraint, CG_Conic)
VF_GROUP(SOS1Constraint, CG_SOS) VF_GROUP(SOS2Constraint, CG_SOS)
}  // namespace vf

class RecAPI : public mp::BasicFlatModelAPI {
 public:
  RecAPI(mp::Env&) {}
  static const char* GetTypeName() { return "RecAPI"; }
  static const char* GetLongName() { return "Recording API"; }

  void AddVariables(const mp::VarArrayDef& v) {
    std::ostringstream o; o << "[";
    for (int i = 0; i < v.size(); ++i) {
      o << (i ? "," : "") << "[" << vf::num(v.plb()[i]) << "," << vf::num(v.pub()[i]) << ","
        << (int)v.ptype()[i] << ",";
      if (v.pnames() && v.pnames()[i]) o << "\"" << vx::jesc(v.pnames()[i]) << "\""; else o << "null";
      o << "]";
    }
    o << "]"; vf::st().vars = o.str();
  }
  template <class Obj> void AddObj(int i, const Obj& ob, const char* kind) {
    fmt::MemoryWriter wrt;
    { mp::MiniJSONWriter jw(wrt); jw["index"] = i; jw["sense"] = (int)ob.obj_sense(); jw["kind"] = kind;
      mp::WriteJSON(jw["lin"], ob.GetLinTerms()); mp::WriteJSON(jw["qp"], ob.GetQPTerms()); }
    std::string s = wrt.c_str();
    // name appended by hand (escaped)
    s.insert(s.size() - 1, std::string(",\"name\":\"") + vx::jesc(ob.name()) + "\"");
    if ((int)vf::st().objs.size() <= i) vf::st().objs.resize(i + 1);
    vf::st().objs[i] = s;
  }
  void SetLinearObjective(int i, const mp::LinearObjective& lo) {
    mp::LinearObjective c = lo; AddObj(i, mp::QuadraticObjective(std::move(c), {}), "lin");
  }
  static int AcceptsQuadObj() { return vf::st().quadobj; }
  void SetQuadraticObjective(int i, const mp::QuadraticObjective& qo) { AddObj(i, qo, "quad"); }
  static bool AcceptsNonconvexQC() { return vf::st().nonconvexqc; }
  static bool CanMixConicQCAndQC() { return vf::st().mixconic; }
  static bool CanSOCPCornerCasesFromQC() { return vf::st().socpcorner; }

  template <class Con> static std::string TN() { return std::string(Con::GetTypeName()); }
  template <class Con> static mp::ConstraintAcceptanceLevel AcceptanceLevel(const Con*) {
    vf::typeid2tn()[typeid(Con).name()] = TN<Con>();
    return (mp::ConstraintAcceptanceLevel)vf::level(TN<Con>());
  }
  template <class Con> static constexpr int GroupNumber(const Con*) { return vf::GroupOf<Con>::value; }
  template <class Con> void AddConstraint(const Con& con) {
    fmt::MemoryWriter wrt;
    { mp::MiniJSONWriter jw(wrt); jw["type"] = TN<Con>(); jw["group"] = (int)vf::GroupOf<Con>::value;
      mp::WriteJSON(jw["data"], con); }
    std::string s = wrt.c_str();
    s.insert(s.size() - 1, std::string(",\"name\":\"") + vx::jesc(con.name()) + "\"");
    vf::st().cons.push_back(s);
    vf::st().stored[TN<Con>()]++;
  }
};
